/* scn-pool: the real lib/util/src/threadpool.c under the simos scheduler (property C09).
 *
 *   scn-pool run <master_seed> <from> <to> [tier]   many seeded runs in this process
 *   scn-pool spec "<spec string>"                    one explicit run (replay / shrinking)
 *
 * One run: N items are pushed through a pool of W workers by a submitter program (a string over
 * S=submit D=dequeue G=get_status), then optionally drained, then destroyed. The worker callback
 * is harness code: it records what it sees, yields to the scheduler, and fails for one designated
 * item. Oracle: sequential FIFO model, see check() calls below.
 */
#include <stdio.h>
#include <stdlib.h>
#include <string.h>
#include <stdint.h>
#include <errno.h>
#include <signal.h>

#include "util/threadpool.h"
#include "simos.h"
#include "simreal.h"

#define MAXI 16
#define MAXW 8

typedef struct {
	int workers, nitems;
	char ops[96];
	int drain;              /* dequeue until NULL before destroy */
	int fail_item;          /* -1 = none */
	int yields[MAXI];
	char policy[16];
	int sticky, spur, pctd, pcth;
	int stall_tid, stall_from, stall_len;
	uint64_t seed;
	long alloc_fail;        /* k-th project allocation fails */
	int create_fail;        /* i-th pthread_create fails (1-based), 0 = none */
	char choices[8192];     /* replay only */
} spec_t;

/* ------------------------------------------------------------------ run state */
static spec_t *S;
static int items[MAXI];                 /* work item payload = its index */
static int processed[MAXI];
static int ctx_busy[MAXW];
static int ctx_obj[MAXW];
static volatile int fail_returned;
static int fail_value;
static char viol[512];
static int nviol;

static void violation(const char *fmt, ...)
{
	va_list ap;
	if (nviol++ > 0)
		return;
	va_start(ap, fmt);
	vsnprintf(viol, sizeof(viol), fmt, ap);
	va_end(ap);
}

static int worker_cb(void *user, void *item)
{
	int idx = (int)((int *)item - items);
	int c = (int)((int *)user - ctx_obj);

	if (idx < 0 || idx >= S->nitems) {
		violation("worker-got-unknown-item");
		return 0;
	}
	if (user == NULL || c < 0 || c >= S->workers) {
		violation("worker-got-unknown-context item=%d", idx);
	} else {
		if (ctx_busy[c])
			violation("context-used-by-two-workers ctx=%d item=%d", c, idx);
		ctx_busy[c] = 1;
	}
	if (++processed[idx] > 1)
		violation("item-processed-twice item=%d", idx);
	for (int i = 0; i < S->yields[idx]; i++)
		sim_yield("worker");
	if (c >= 0 && c < S->workers)
		ctx_busy[c] = 0;
	if (idx == S->fail_item) {
		fail_returned = 1;
		return fail_value;
	}
	return 0;
}

static void spec_print(const spec_t *s, char *buf, size_t len)
{
	size_t o = snprintf(buf, len, "w=%d n=%d ops=%s drain=%d fail=%d yields=", s->workers, s->nitems,
			    s->ops[0] ? s->ops : "-", s->drain, s->fail_item);
	for (int i = 0; i < s->nitems; i++)
		o += snprintf(buf + o, len - o, "%d%s", s->yields[i], i + 1 < s->nitems ? "," : "");
	o += snprintf(buf + o, len - o, " pol=%s sticky=%d spur=%d pctd=%d pcth=%d stall=%d,%d,%d seed=%llu afail=%ld cfail=%d",
		      s->policy, s->sticky, s->spur, s->pctd, s->pcth, s->stall_tid, s->stall_from, s->stall_len,
		      (unsigned long long)s->seed, s->alloc_fail, s->create_fail);
	if (s->choices[0])
		snprintf(buf + o, len - o, " choices=%s", s->choices);
}

static int spec_parse(const char *str, spec_t *s)
{
	char *copy = strdup(str), *save = NULL;
	memset(s, 0, sizeof(*s));
	s->fail_item = -1;
	strcpy(s->policy, "random");
	for (char *t = strtok_r(copy, " ", &save); t; t = strtok_r(NULL, " ", &save)) {
		char *v = strchr(t, '=');
		if (!v)
			continue;
		*v++ = 0;
		if (!strcmp(t, "w")) s->workers = atoi(v);
		else if (!strcmp(t, "n")) s->nitems = atoi(v);
		else if (!strcmp(t, "ops")) snprintf(s->ops, sizeof(s->ops), "%s", strcmp(v, "-") ? v : "");
		else if (!strcmp(t, "drain")) s->drain = atoi(v);
		else if (!strcmp(t, "fail")) s->fail_item = atoi(v);
		else if (!strcmp(t, "yields")) {
			int i = 0;
			for (char *p = v; *p && i < MAXI; i++) {
				s->yields[i] = strtol(p, &p, 10);
				if (*p == ',') p++;
			}
		} else if (!strcmp(t, "pol")) snprintf(s->policy, sizeof(s->policy), "%s", v);
		else if (!strcmp(t, "sticky")) s->sticky = atoi(v);
		else if (!strcmp(t, "spur")) s->spur = atoi(v);
		else if (!strcmp(t, "pctd")) s->pctd = atoi(v);
		else if (!strcmp(t, "pcth")) s->pcth = atoi(v);
		else if (!strcmp(t, "stall")) sscanf(v, "%d,%d,%d", &s->stall_tid, &s->stall_from, &s->stall_len);
		else if (!strcmp(t, "seed")) s->seed = strtoull(v, NULL, 0);
		else if (!strcmp(t, "afail")) s->alloc_fail = atol(v);
		else if (!strcmp(t, "cfail")) s->create_fail = atoi(v);
		else if (!strcmp(t, "choices")) {
			snprintf(s->choices, sizeof(s->choices), "%s", v);
		}
	}
	free(copy);
	if (s->workers < 1 || s->workers > MAXW || s->nitems < 0 || s->nitems > MAXI)
		return -1;
	return 0;
}

/* derive a run from (master seed, index): swarm style, everything varies per run */
static void spec_generate(uint64_t master, uint64_t idx, int tier, spec_t *s)
{
	sim_rng_t r;
	uint64_t x = master * 0x9e3779b97f4a7c15ULL + idx;
	sim_rng_seed(&r, sim_splitmix(&x));
	memset(s, 0, sizeof(*s));
	s->seed = sim_rng_next(&r) >> 1;
	/* bias to the small end: most concurrency bugs need few threads and few items */
	static const int wdist[] = { 1, 1, 2, 2, 2, 2, 3, 3, 3, 4 };
	static const int ndist[] = { 1, 2, 2, 3, 3, 3, 4, 4, 5, 5, 6, 8 };
	s->workers = wdist[sim_rng_below(&r, 10)];
	s->nitems = ndist[sim_rng_below(&r, 12)];
	if (tier > 0 && sim_rng_below(&r, 20) == 0) {
		s->workers = 1 + sim_rng_below(&r, MAXW);
		s->nitems = 1 + sim_rng_below(&r, MAXI);
	}
	/* submitter program */
	int remaining = s->nitems, o = 0, style = sim_rng_below(&r, 4);
	while (remaining > 0 && o < 90) {
		int c = sim_rng_below(&r, 100);
		if (style == 0) {                      /* submit everything, dequeue afterwards */
			s->ops[o++] = 'S'; remaining--;
		} else if (style == 1) {               /* lock step */
			s->ops[o++] = 'S'; remaining--;
			s->ops[o++] = 'D';
		} else {                               /* mixed, incl. dequeue on empty */
			if (c < 55) { s->ops[o++] = 'S'; remaining--; }
			else if (c < 90) s->ops[o++] = 'D';
			else s->ops[o++] = 'G';
		}
	}
	int tail = sim_rng_below(&r, s->nitems + 2);
	for (int i = 0; i < tail && o < 94; i++)
		s->ops[o++] = sim_rng_below(&r, 8) ? 'D' : 'G';
	s->ops[o] = 0;
	s->drain = sim_rng_below(&r, 3) != 0;
	s->fail_item = -1;
	if (sim_rng_below(&r, 3) == 0)
		s->fail_item = sim_rng_below(&r, s->nitems);
	for (int i = 0; i < s->nitems; i++)
		s->yields[i] = sim_rng_below(&r, 4);
	switch (sim_rng_below(&r, 8)) {
	case 0: case 1: case 2: strcpy(s->policy, "random"); s->sticky = 0; break;
	case 3: case 4: strcpy(s->policy, "random"); s->sticky = 300 + 100 * sim_rng_below(&r, 6); break;
	case 5: case 6: strcpy(s->policy, "pct"); s->pctd = 1 + sim_rng_below(&r, 4); s->pcth = 20 + sim_rng_below(&r, 150); break;
	default: strcpy(s->policy, "rr"); break;
	}
	if (sim_rng_below(&r, 3) == 0)
		s->spur = 10 + sim_rng_below(&r, 200);
	if (sim_rng_below(&r, 5) == 0) {
		s->stall_tid = sim_rng_below(&r, s->workers + 1);
		s->stall_from = sim_rng_below(&r, 60);
		s->stall_len = 5 + sim_rng_below(&r, 80);
	}
	if (sim_rng_below(&r, 12) == 0)
		s->alloc_fail = 1 + sim_rng_below(&r, s->nitems + 2);
	if (sim_rng_below(&r, 25) == 0)
		s->create_fail = 1 + sim_rng_below(&r, s->workers);
}

/* ------------------------------------------------------------------ one run */
typedef struct {
	uint64_t dhash;
	long steps, decisions, dq_nonnull, dq_null_empty, dq_null_failed, submit_refused, main_waits,
	     spurious, stalled, alloc_fired, create_failed_pool;
} result_t;

static spec_t *cur_spec;
static void on_deadlock(const char *state);

static int run_spec(spec_t *s, result_t *res)
{
	char plan[12288];
	size_t o = 0;
	S = s;
	cur_spec = s;
	nviol = 0;
	viol[0] = 0;
	memset(processed, 0, sizeof(processed));
	memset(ctx_busy, 0, sizeof(ctx_busy));
	memset(res, 0, sizeof(*res));
	fail_returned = 0;
	fail_value = -(1000 + (s->fail_item >= 0 ? s->fail_item : 0));

	o += snprintf(plan + o, sizeof(plan) - o, "seed %llu\n", (unsigned long long)s->seed);
	if (!strcmp(s->policy, "pct"))
		o += snprintf(plan + o, sizeof(plan) - o, "sched pct %d %d\n", s->pctd, s->pcth);
	else
		o += snprintf(plan + o, sizeof(plan) - o, "sched %s\n", s->policy);
	o += snprintf(plan + o, sizeof(plan) - o, "sticky %d\nspurious %d\nbudget 20000\n", s->sticky, s->spur);
	if (s->stall_len > 0)
		o += snprintf(plan + o, sizeof(plan) - o, "stall %d %d %d\n", s->stall_tid, s->stall_from, s->stall_len);
	if (s->alloc_fail)
		o += snprintf(plan + o, sizeof(plan) - o, "alloc_fail %ld\n", s->alloc_fail);
	if (s->create_fail)
		o += snprintf(plan + o, sizeof(plan) - o, "fault pthread_create other %d err 11\n", s->create_fail);
	if (s->choices[0]) {
		o += snprintf(plan + o, sizeof(plan) - o, "choice");
		for (const char *p = s->choices; *p; p++)
			plan[o++] = (*p == ',') ? ' ' : *p;
		plan[o++] = '\n';
		plan[o] = 0;
	}
	sim_reset_all();
	sim_deadlock_handler = on_deadlock;
	sim_budget_handler = NULL;
	if (sim_load_plan_text(plan) != 0) {
		fprintf(stderr, "bad plan\n%s", plan);
		exit(2);
	}

	long allocs_before = sim_alloc_count();
	thread_pool_t *pool = thread_pool_create(s->workers, worker_cb);
	if (pool == NULL) {
		if (!s->create_fail && !(s->alloc_fail && s->alloc_fail <= sim_alloc_count() - allocs_before))
			violation("create-returned-NULL-without-fault");
		res->create_failed_pool = 1;
		goto done;
	}
	if ((int)pool->get_worker_count(pool) != s->workers)
		violation("worker-count %d != %d", (int)pool->get_worker_count(pool), s->workers);
	for (int i = 0; i < s->workers; i++)
		pool->set_worker_ptr(pool, i, &ctx_obj[i]);
	pool->set_worker_ptr(pool, s->workers + 3, NULL); /* out of range: must be ignored */

	int submitted = 0, accepted[MAXI], naccepted = 0, dequeued = 0, failure_seen = 0;
	const char *p = s->ops;
	int draining = 0;
	for (;;) {
		char op = *p ? *p++ : 0;
		if (op == 0) {
			if (!s->drain || draining == 2)
				break;
			draining = 1;
			op = 'D';
		}
		if (op == 'S') {
			if (submitted >= s->nitems)
				continue;
			int idx = submitted++;
			items[idx] = idx;
			long a0 = sim_alloc_count();
			int rc = pool->submit(pool, &items[idx]);
			int alloc_hit = s->alloc_fail && a0 < s->alloc_fail && sim_alloc_count() >= s->alloc_fail;
			if (rc == 0) {
				accepted[naccepted++] = idx;
			} else {
				res->submit_refused++;
				if (alloc_hit) {
					res->alloc_fired++;
				} else if (!fail_returned) {
					violation("submit-refused-without-failure rc=%d item=%d", rc, idx);
				} else {
					failure_seen = 1;
					if (rc != fail_value)
						violation("submit-status %d != worker status %d", rc, fail_value);
				}
			}
		} else if (op == 'D') {
			void *ptr = pool->dequeue(pool);
			int pending = naccepted - dequeued;
			if (ptr == NULL) {
				if (pending == 0) {
					res->dq_null_empty++;
					if (draining)
						draining = 2;
				} else {
					/* NULL with items in the pipeline: only legal as "the pool has failed" */
					res->dq_null_failed++;
					if (!fail_returned)
						violation("dequeue-NULL-with-%d-items-pending-and-no-failure", pending);
					else if (pool->get_status(pool) == 0)
						violation("dequeue-NULL-after-failure-but-status-0");
					failure_seen = 1;
					if (draining)
						draining = 2;
				}
			} else {
				int idx = (int)((int *)ptr - items);
				res->dq_nonnull++;
				if (pending == 0)
					violation("dequeue-returned-item-from-empty-pipeline");
				else if (idx != accepted[dequeued])
					violation("dequeue-out-of-order got=%d expected=%d", idx, accepted[dequeued]);
				else {
					if (processed[idx] != 1 && !fail_returned)
						violation("dequeued-item-not-processed item=%d count=%d", idx, processed[idx]);
					if (idx == s->fail_item && pool->get_status(pool) != fail_value)
						violation("failed-item-returned-but-status=%d", pool->get_status(pool));
				}
				dequeued++;
			}
		} else if (op == 'G') {
			int st = pool->get_status(pool);
			if (st != 0) {
				if (!fail_returned)
					violation("status-%d-without-failure", st);
				else if (st != fail_value)
					violation("status %d != worker status %d", st, fail_value);
				failure_seen = 1;
			} else if (failure_seen) {
				violation("status-went-back-to-0");
			}
		}
		if (nviol)
			break;
	}
	(void)failure_seen;
	pool->destroy(pool);
	for (int i = 0; i < s->nitems; i++)
		if (processed[i] > 1)
			violation("item-processed-twice item=%d", i);
	if (s->fail_item < 0 && !s->alloc_fail)
		for (int i = 0; i < dequeued; i++)
			if (processed[accepted[i]] != 1)
				violation("dequeued-item-processed-%d-times", processed[accepted[i]]);
done:
	res->dhash = sim_sched_hash();
	res->steps = sim_sched_steps();
	res->decisions = sim_sched_decisions();
	res->spurious = sim_sched_stats.spurious;
	res->stalled = sim_sched_stats.stalled_skips;
	res->main_waits = sim_sched_stats.cond_waits_t0;
	sim_sched_stop();
	return nviol;
}

/* ------------------------------------------------------------------ batch */
#define HSET (1u << 22)
static uint64_t *hset;
static long distinct;

static int hset_add(uint64_t k)
{
	if (k == 0) k = 1;
	uint32_t i = (uint32_t)(k * 0x9e3779b97f4a7c15ULL >> 42) & (HSET - 1);
	while (hset[i]) {
		if (hset[i] == k)
			return 0;
		i = (i + 1) & (HSET - 1);
	}
	if (distinct > HSET / 2)
		return 0;
	hset[i] = k;
	distinct++;
	return 1;
}

static struct {
	long runs, viol, deadlocks, steps, decisions, dq_nonnull, dq_null_empty, dq_null_failed, refused,
	     main_waits, spurious, stalled, alloc_fired, create_failed, with_failure, nontrivial,
	     small[3][3];
	uint64_t agg;
} A;
static uint64_t cur_index;
static int replay_mode;

static void print_stats(void)
{
	printf("STAT runs=%ld viol=%ld deadlocks=%ld distinct=%ld nontrivial=%ld steps=%ld decisions=%ld dq_item=%ld "
	       "dq_null_empty=%ld dq_null_failed=%ld submit_refused=%ld main_waits=%ld spurious=%ld stall_skips=%ld "
	       "alloc_fired=%ld create_failed=%ld with_failure=%ld small_1x1=%ld small_1x2=%ld small_2x1=%ld small_2x2=%ld agg=%016llx\n",
	       A.runs, A.viol, A.deadlocks, distinct, A.nontrivial, A.steps, A.decisions, A.dq_nonnull, A.dq_null_empty,
	       A.dq_null_failed, A.refused, A.main_waits, A.spurious, A.stalled, A.alloc_fired, A.create_failed,
	       A.with_failure, A.small[1][1], A.small[1][2], A.small[2][1], A.small[2][2],
	       (unsigned long long)A.agg);
	fflush(stdout);
}

static void on_deadlock(const char *state)
{
	char buf[12288];
	spec_print(cur_spec, buf, sizeof(buf));
	/* the recorded decisions make the run replayable without the PRNG */
	size_t n;
	const uint32_t *rec = sim_sched_recorded(&n);
	printf("VIOL idx=%llu kind=deadlock detail=%s spec: %s rec=", (unsigned long long)cur_index, state, buf);
	for (size_t i = 0; i < n && i < 2000; i++)
		printf("%u%s", rec[i], i + 1 < n ? "," : "");
	printf("\n");
	A.deadlocks++;
	A.viol++;
	A.runs++;
	if (!replay_mode)
		print_stats();
	fflush(stdout);
	_exit(SIM_EXIT_DEADLOCK);
}

/* the component under test died (double free abort, SIGSEGV ...): that is a verdict on the pool, reported with the spec of the run */
static void on_crash(int sig)
{
	static char buf[12288];
	static volatile int once;
	if (once++)
		_exit(74);
	spec_print(cur_spec, buf, sizeof(buf));
	size_t n;
	const uint32_t *rec = sim_sched_recorded(&n);
	printf("VIOL idx=%llu kind=crash-signal-%d spec: %s rec=", (unsigned long long)cur_index, sig, buf);
	for (size_t i = 0; i < n && i < 2000; i++)
		printf("%u%s", rec[i], i + 1 < n ? "," : "");
	printf("\n");
	if (!replay_mode)
		print_stats();
	fflush(stdout);
	_exit(74);
}

/* AddressSanitizer reports through its own path and then calls this (if the runtime is present) */
void __sanitizer_set_death_callback(void (*cb)(void)) __attribute__((weak));
static void on_asan_death(void) { on_crash(77); }

static uint64_t spec_key(const spec_t *s)
{
	uint64_t h = 1469598103934665603ULL;
	h = (h ^ s->workers) * 0x100000001b3ULL;
	h = (h ^ s->nitems) * 0x100000001b3ULL;
	h = (h ^ (s->fail_item + 1)) * 0x100000001b3ULL;
	h = (h ^ s->drain) * 0x100000001b3ULL;
	for (const char *p = s->ops; *p; p++)
		h = (h ^ *p) * 0x100000001b3ULL;
	for (int i = 0; i < s->nitems; i++)
		h = (h ^ s->yields[i]) * 0x100000001b3ULL;
	return h;
}

static void account(const spec_t *s, const result_t *r, int v)
{
	A.runs++;
	A.viol += v ? 1 : 0;
	A.steps += r->steps;
	A.decisions += r->decisions;
	A.dq_nonnull += r->dq_nonnull;
	A.dq_null_empty += r->dq_null_empty;
	A.dq_null_failed += r->dq_null_failed;
	A.refused += r->submit_refused;
	A.main_waits += r->main_waits;
	A.spurious += r->spurious;
	A.stalled += r->stalled;
	A.alloc_fired += r->alloc_fired;
	A.create_failed += r->create_failed_pool;
	A.with_failure += s->fail_item >= 0;
	A.agg = (A.agg ^ r->dhash) * 0x100000001b3ULL + v;
	int fresh = hset_add(spec_key(s) ^ r->dhash);
	if (fresh && r->decisions > 0)
		A.nontrivial++;
	if (fresh && s->workers <= 2 && s->nitems <= 2)
		A.small[s->workers][s->nitems]++;
}

int main(int argc, char **argv)
{
	spec_t s;
	result_t r;
	char buf[12288];
	setvbuf(stdout, NULL, _IOLBF, 0);
	hset = calloc(HSET, sizeof(uint64_t));
	signal(SIGSEGV, on_crash); signal(SIGABRT, on_crash); signal(SIGBUS, on_crash); signal(SIGILL, on_crash); signal(SIGFPE, on_crash);
	if (__sanitizer_set_death_callback)
		__sanitizer_set_death_callback(on_asan_death);
	if (argc >= 3 && !strcmp(argv[1], "spec")) {
		replay_mode = 1;
		if (spec_parse(argv[2], &s) != 0) {
			fprintf(stderr, "bad spec\n");
			return 2;
		}
		int v = run_spec(&s, &r);
		spec_print(&s, buf, sizeof(buf));
		if (v)
			printf("VIOL idx=0 kind=%s spec: %s\n", viol, buf);
		printf("RESULT viol=%d dhash=%016llx steps=%ld decisions=%ld\n", v, (unsigned long long)r.dhash, r.steps,
		       r.decisions);
		return v ? 1 : 0;
	}
	if (argc >= 5 && !strcmp(argv[1], "run")) {
		uint64_t master = strtoull(argv[2], NULL, 0);
		uint64_t from = strtoull(argv[3], NULL, 0), to = strtoull(argv[4], NULL, 0);
		int tier = argc >= 6 ? atoi(argv[5]) : 0;
		int samples = 0;
		for (uint64_t i = from; i < to; i++) {
			cur_index = i;
			spec_generate(master, i, tier, &s);
			int v = run_spec(&s, &r);
			account(&s, &r, v);
			if (v) {
				spec_print(&s, buf, sizeof(buf));
				size_t n;
				const uint32_t *rec = sim_sched_recorded(&n);
				printf("VIOL idx=%llu kind=%s spec: %s rec=", (unsigned long long)i, viol, buf);
				for (size_t k = 0; k < n && k < 2000; k++)
					printf("%u%s", rec[k], k + 1 < n ? "," : "");
				printf("\n");
			} else if (samples < 3 && r.decisions > 4) {
				spec_print(&s, buf, sizeof(buf));
				printf("SAMPLE idx=%llu dhash=%016llx decisions=%ld spec: %s\n", (unsigned long long)i,
				       (unsigned long long)r.dhash, r.decisions, buf);
				samples++;
			}
		}
		print_stats();
		return 0;
	}
	fprintf(stderr, "usage: scn-pool run <master> <from> <to> [tier] | spec \"...\"\n");
	return 2;
}
