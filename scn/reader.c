/* scn-reader: libsquashfs reader objects over an in-memory image with fault hooks (C10, C05 API part).
 *
 *   scn-reader run  <image> <master_seed> <from> <to> [hist_len]     seeded histories
 *   scn-reader hist <image> "<k,a,b,c;k,a,b,c;...>" "<fail read_at ordinals, comma separated>" <alloc_fail_k>
 *
 * One history = a sequence of reader API calls on ONE set of reader objects (dir reader with and
 * without dot entries, data reader, xattr reader, id table, raw meta reader), with transient
 * read_at failures (EIO) at seeded call ordinals and one optional allocation failure.
 * Reference model = the same call on FRESHLY created readers over the same bytes without faults,
 * memoised per call. Oracle: a call not hit by an injected fault must give exactly the reference
 * (status, payload hash); a call hit by a fault may fail, but a success must carry the reference payload.
 */
#include <stdio.h>
#include <stdlib.h>
#include <string.h>
#include <stdint.h>
#include <stdarg.h>

#include "sqfs/super.h"
#include "sqfs/compressor.h"
#include "sqfs/dir_reader.h"
#include "sqfs/data_reader.h"
#include "sqfs/xattr_reader.h"
#include "sqfs/meta_reader.h"
#include "sqfs/id_table.h"
#include "sqfs/inode.h"
#include "sqfs/xattr.h"
#include "sqfs/error.h"
#include "sqfs/dir.h"
#include "sqfs/io.h"

#include "simos.h"
#include "simreal.h"

#include "memfile.h"

/* ------------------------------------------------------------------ hashing */
static uint64_t H(uint64_t h, const void *p, size_t n)
{
	const uint8_t *b = p;
	for (size_t i = 0; i < n; i++)
		h = (h ^ b[i]) * 0x100000001b3ULL;
	return h;
}
#define H0 0xcbf29ce484222325ULL
static uint64_t Hu(uint64_t h, uint64_t v) { return H(h, &v, sizeof(v)); }

static uint64_t hash_inode(const sqfs_inode_generic_t *i)
{
	uint64_t h = H(H0, &i->base, sizeof(i->base));
	h = Hu(h, i->payload_bytes_used);
	h = H(h, &i->data, sizeof(i->data));
	return H(h, i->extra, i->payload_bytes_used);
}

/* ------------------------------------------------------------------ reader set */
typedef struct {
	sqfs_file_t *file;
	sqfs_compressor_t *cmp;
	sqfs_dir_reader_t *dr, *drdot;
	sqfs_data_reader_t *data;
	sqfs_xattr_reader_t *xr;
	sqfs_id_table_t *idt;
	sqfs_meta_reader_t *mr;
	int xr_loaded, frag_loaded, id_loaded;
} rset_t;

static sqfs_super_t super;
static const uint8_t *image;
static size_t image_size;

static void rset_destroy(rset_t *s)
{
	sqfs_drop(s->mr); sqfs_drop(s->idt); sqfs_drop(s->xr); sqfs_drop(s->data);
	sqfs_drop(s->drdot); sqfs_drop(s->dr); sqfs_drop(s->cmp); sqfs_drop(s->file);
	memset(s, 0, sizeof(*s));
}

/* creation failures (injected faults during creation) leave members NULL: ops on them report -9999 */
static void rset_create(rset_t *s, long *calls, const long *fail, size_t nfail, int *hit)
{
	sqfs_compressor_config_t cfg;
	memset(s, 0, sizeof(*s));
	s->file = memfile_create(image, image_size, calls, fail, nfail, hit);
	if (sqfs_compressor_config_init(&cfg, super.compression_id, super.block_size, SQFS_COMP_FLAG_UNCOMPRESS))
		return;
	if (sqfs_compressor_create(&cfg, &s->cmp))
		return;
	s->dr = sqfs_dir_reader_create(&super, s->cmp, s->file, 0);
	s->drdot = sqfs_dir_reader_create(&super, s->cmp, s->file, SQFS_DIR_READER_DOT_ENTRIES);
	s->data = sqfs_data_reader_create(s->file, super.block_size, s->cmp, 0);
	if (s->data && sqfs_data_reader_load_fragment_table(s->data, &super) == 0)
		s->frag_loaded = 1;
	s->xr = sqfs_xattr_reader_create(0);
	if (s->xr && sqfs_xattr_reader_load(s->xr, &super, s->file, s->cmp) == 0)
		s->xr_loaded = 1;
	s->idt = sqfs_id_table_create(0);
	if (s->idt && sqfs_id_table_read(s->idt, s->file, &super, s->cmp) == 0)
		s->id_loaded = 1;
	s->mr = sqfs_meta_reader_create(s->file, s->cmp, super.inode_table_start, super.directory_table_start);
}

/* ------------------------------------------------------------------ catalogue (what can be asked) */
#define MAXCAT 4096
static struct { uint64_t ref; int type; uint64_t size; uint32_t xattr; uint32_t inum; } cat[MAXCAT];
static size_t ncat;
static char *paths[MAXCAT];
static size_t npaths;
static uint64_t metablocks[256];
static size_t nmeta;

static void catalogue_walk(rset_t *s, uint64_t ref, const char *prefix, int depth)
{
	sqfs_inode_generic_t *ino = NULL;
	sqfs_dir_reader_state_t st;
	sqfs_dir_node_t *ent;
	if (ncat >= MAXCAT || depth > 12 || !s->dr)
		return;
	for (size_t i = 0; i < ncat; i++)
		if (cat[i].ref == ref)
			return;
	if (sqfs_dir_reader_get_inode(s->dr, ref, &ino) != 0)
		return;
	cat[ncat].ref = ref;
	cat[ncat].type = ino->base.type;
	cat[ncat].inum = ino->base.inode_number;
	cat[ncat].size = 0;
	cat[ncat].xattr = 0xFFFFFFFF;
	sqfs_inode_get_xattr_index(ino, &cat[ncat].xattr);
	if (ino->base.type == SQFS_INODE_FILE || ino->base.type == SQFS_INODE_EXT_FILE)
		sqfs_inode_get_file_size(ino, &cat[ncat].size);
	ncat++;
	{
		uint64_t blk = ref >> 16;
		size_t k;
		for (k = 0; k < nmeta; k++)
			if (metablocks[k] == blk)
				break;
		if (k == nmeta && nmeta < 256)
			metablocks[nmeta++] = blk;
	}
	if (ino->base.type == SQFS_INODE_DIR || ino->base.type == SQFS_INODE_EXT_DIR) {
		if (sqfs_dir_reader_open_dir(s->dr, ino, &st, 0) == 0) {
			int guard = 0;
			while (guard++ < 2000 && sqfs_dir_reader_read(s->dr, &st, &ent) == 0) {
				char path[1024];
				uint64_t cref = st.ent_ref;
				snprintf(path, sizeof(path), "%s%s%.*s", prefix, prefix[0] ? "/" : "", (int)ent->size + 1, (const char *)ent->name);
				if (npaths < MAXCAT)
					paths[npaths++] = strdup(path);
				sqfs_free(ent);
				catalogue_walk(s, cref, path, depth + 1);
			}
		}
	}
	sqfs_free(ino);
}

/* ------------------------------------------------------------------ operations */
typedef struct { int kind; uint32_t a, b, c; } op_t;
typedef struct { int status; uint64_t hash; } res_t;
enum { OP_INODE, OP_LIST, OP_RESOLVE, OP_READ, OP_BLOCK, OP_FRAG, OP_STREAM, OP_XALL, OP_XSTEP, OP_ID, OP_META, OP_INUM, OP_CONSIST, OP_COUNT };
static const char *opname[] = { "get_inode", "list_dir", "resolve_path", "read", "get_block", "get_fragment", "stream", "xattr_read_all",
				"xattr_step", "id_lookup", "meta_seek_read", "resolve_inum", "file_api_consistency" };

/* want: 0 any, 1 regular file, 2 directory; most picks land on an inode of the wanted type */
/* file inodes that carry data, largest first (built lazily from the catalogue): data queries prefer them, because a catalogue full of
 * empty directory entries would otherwise dilute the few inodes whose blocks and fragments can disagree with earlier reads */
static size_t bysize[MAXCAT];
static size_t nbysize;
static int bysize_built;

static int cmp_bysize(const void *x, const void *y)
{
	size_t a = *(const size_t *)x, b = *(const size_t *)y;
	if (cat[a].size != cat[b].size)
		return cat[a].size > cat[b].size ? -1 : 1;
	return a < b ? -1 : (a > b);
}

static size_t pick_index(uint32_t a, int want)
{
	size_t i = ncat ? a % ncat : 0;
	if (!ncat || !want || (a >> 20) % 5 == 0)
		return i;
	if (want == 1) {
		if (!bysize_built) {
			bysize_built = 1;
			nbysize = 0;
			for (size_t k = 0; k < ncat; k++)
				if ((cat[k].type == SQFS_INODE_FILE || cat[k].type == SQFS_INODE_EXT_FILE) && cat[k].size > 0)
					bysize[nbysize++] = k;
			qsort(bysize, nbysize, sizeof(bysize[0]), cmp_bysize);
		}
		if (nbysize && (a >> 20) % 5 <= 2)
			return bysize[(a >> 8) % (nbysize < 16 ? nbysize : 16)];      /* one of the 16 largest */
		if (nbysize && (a >> 20) % 5 == 3)
			return bysize[(a >> 8) % nbysize];                             /* any file with data */
	}
	for (size_t k = 0; k < ncat; k++) {
		size_t j = (i + k) % ncat;
		int t = cat[j].type;
		if (want == 1 && (t == SQFS_INODE_FILE || t == SQFS_INODE_EXT_FILE))
			return j;
		if (want == 2 && (t == SQFS_INODE_DIR || t == SQFS_INODE_EXT_DIR))
			return j;
	}
	return i;
}

static uint64_t pick_ref_typed(uint32_t a, uint32_t variant, int want);

static uint64_t pick_ref(uint32_t a, uint32_t variant)
{
	return pick_ref_typed(a, variant, 0);
}

static uint64_t pick_ref_typed(uint32_t a, uint32_t variant, int want)
{
	uint64_t ref = ncat ? cat[pick_index(a, want)].ref : 0;
	switch (variant % 16) {
	case 5: return ref + 1;                              /* off by one inside the block */
	case 6: return (ref & 0xFFFF) | ((ref >> 16) + 7) << 16; /* other block */
	case 7: return ((uint64_t)(super.directory_table_start - super.inode_table_start + 100) << 16) | (ref & 0xFFFF);
	default: return ref;
	}
}

/* what lies behind the terminator of a path string handed to the library: zeros for the history under test, a non-zero pattern for
 * the fresh-reader reference. A correct library never looks there; one that does gives different answers, reproducibly. */
static uint8_t path_fill;

static res_t do_op(rset_t *s, const op_t *op)
{
	res_t r = { -9999, H0 };
	sqfs_inode_generic_t *ino = NULL;
	int want = (op->kind == OP_LIST) ? 2 : ((op->kind == OP_READ || op->kind == OP_BLOCK || op->kind == OP_FRAG || op->kind == OP_STREAM ||
						op->kind == OP_CONSIST) ? 1 : 0);
	uint64_t ref = pick_ref_typed(op->a, op->c, want);
	sqfs_dir_reader_t *dr = (op->c & 8) ? s->drdot : s->dr;

	switch (op->kind) {
	case OP_INODE:
		if (!dr) break;
		r.status = sqfs_dir_reader_get_inode(dr, ref, &ino);
		if (r.status == 0)
			r.hash = hash_inode(ino);
		break;
	case OP_LIST: {
		sqfs_dir_reader_state_t st;
		sqfs_dir_node_t *ent;
		if (!dr) break;
		r.status = sqfs_dir_reader_get_inode(dr, ref, &ino);
		if (r.status) break;
		/* a reader with SQFS_DIR_READER_DOT_ENTRIES resolves ".." from a cache of directories it has seen: documented to depend on
		   what was fetched before, so "." / ".." generation is always switched off here (no verdict on that feature) */
		r.status = sqfs_dir_reader_open_dir(dr, ino, &st, (dr == s->drdot || (op->c & 16)) ? SQFS_DIR_OPEN_NO_DOT_ENTRIES : 0);
		if (r.status) break;
		for (uint32_t i = 0; i < 1 + op->b % 40; i++) {
			int rc = sqfs_dir_reader_read(dr, &st, &ent);
			r.hash = Hu(r.hash, (uint64_t)(int64_t)rc);
			if (rc != 0) {
				if (rc < 0) r.status = rc;
				break;
			}
			r.hash = H(r.hash, ent, sizeof(*ent) + ent->size + 1);
			r.hash = Hu(r.hash, st.ent_ref);
			sqfs_free(ent);
		}
		break;
	}
	case OP_RESOLVE: {
		uint64_t out = 0;
		char buf[1100];
		/* resolve_path opens directories WITH "." / ".." generation: on a DOT_ENTRIES reader that consults the cache of directories seen
		   so far (documented history dependence, made visible by damaged images) - the plain reader is used for the verdict */
		dr = s->dr;
		if (!dr || !npaths) break;
		memset(buf, path_fill, sizeof(buf));
		snprintf(buf, sizeof(buf), "%s%s", paths[op->a % npaths], (op->c % 5 == 4) ? "/nonexistent" : "");
		r.status = sqfs_dir_reader_resolve_path(dr, buf, NULL, &out);
		if (r.status == 0)
			r.hash = Hu(r.hash, out);
		break;
	}
	case OP_READ: {
		uint8_t buf[20000];
		uint64_t size, off;
		uint32_t len = 1 + op->b % sizeof(buf);
		sqfs_s32 n;
		if (!s->dr || !s->data) break;
		r.status = sqfs_dir_reader_get_inode(s->dr, ref, &ino);
		if (r.status) break;
		size = 0;
		sqfs_inode_get_file_size(ino, &size);
		off = size ? (op->c * 2654435761u) % (size + 10) : op->c % 7;
		if (op->c % 3 == 0 && size > super.block_size)
			off = (off / super.block_size) * super.block_size - (op->c % 2);  /* straddle block boundaries */
		n = sqfs_data_reader_read(s->data, ino, off, buf, len);
		r.status = n < 0 ? n : 0;
		if (n >= 0) {
			r.hash = Hu(r.hash, (uint64_t)n);
			r.hash = H(r.hash, buf, n);
		}
		break;
	}
	case OP_BLOCK:
	case OP_FRAG: {
		size_t size = 0;
		sqfs_u8 *out = NULL;
		if (!s->dr || !s->data) break;
		r.status = sqfs_dir_reader_get_inode(s->dr, ref, &ino);
		if (r.status) break;
		if (op->kind == OP_BLOCK)
			r.status = sqfs_data_reader_get_block(s->data, ino, op->b % 9, &size, &out);
		else
			r.status = sqfs_data_reader_get_fragment(s->data, ino, &size, &out);
		if (r.status == 0) {
			r.hash = Hu(r.hash, size);
			if (out) r.hash = H(r.hash, out, size);
		}
		free(out);
		break;
	}
	case OP_STREAM: {
		sqfs_istream_t *strm = NULL;
		uint8_t buf[9000];
		uint32_t chunk = 1 + op->b % sizeof(buf);
		uint64_t total = 0;
		if (!s->dr || !s->data) break;
		r.status = sqfs_dir_reader_get_inode(s->dr, ref, &ino);
		if (r.status) break;
		r.status = sqfs_data_reader_create_stream(s->data, ino, "f", &strm);
		if (r.status) break;
		for (;;) {
			sqfs_s32 n = sqfs_istream_read(strm, buf, chunk);
			if (n < 0) { r.status = n; break; }
			if (n == 0) break;
			r.hash = H(r.hash, buf, n);
			total += n;
			if (total > (64u << 20)) { r.status = -9998; break; }
		}
		r.hash = Hu(r.hash, total);
		sqfs_drop(strm);
		break;
	}
	case OP_XALL: {
		sqfs_xattr_t *list = NULL, *it;
		uint32_t idx = ncat ? cat[op->a % ncat].xattr : 0;
		if (!s->xr) break;
		if (op->c % 6 == 5) idx = op->b;
		r.status = sqfs_xattr_reader_read_all(s->xr, idx, &list);
		for (it = list; r.status == 0 && it; it = it->next) {
			r.hash = H(r.hash, it->key, strlen(it->key) + 1);
			r.hash = H(r.hash, it->value, it->value_len);
		}
		sqfs_xattr_list_free(list);
		break;
	}
	case OP_XSTEP: {
		sqfs_xattr_id_t desc;
		sqfs_xattr_entry_t *key = NULL;
		sqfs_xattr_value_t *val = NULL;
		uint32_t idx = ncat ? cat[op->a % ncat].xattr : 0;
		if (!s->xr) break;
		if (op->c % 6 == 5) idx = op->b;
		r.status = sqfs_xattr_reader_get_desc(s->xr, idx, &desc);
		if (r.status) break;
		r.hash = H(r.hash, &desc, sizeof(desc));
		if (desc.count == 0) break;
		r.status = sqfs_xattr_reader_seek_kv(s->xr, &desc);
		if (r.status) break;
		r.status = sqfs_xattr_reader_read_key(s->xr, &key);
		if (r.status) break;
		r.hash = H(r.hash, key, sizeof(*key) + key->size);
		r.status = sqfs_xattr_reader_read_value(s->xr, key, &val);
		if (r.status == 0)
			r.hash = H(r.hash, val, sizeof(*val) + val->size);
		sqfs_free(key);
		sqfs_free(val);
		if (r.status == 0 && op->c % 2 == 0) {
			/* the whole set walked twice: plainly, and with descriptor lookups of OTHER sets between the steps of the walk. The
			   key/value cursor and the descriptor table are different things; a lookup must not move the cursor (status -9005) */
			uint64_t h[2] = { H0, H0 };
			int st[2] = { 0, 0 };
			for (int pass = 0; pass < 2; pass++) {
				sqfs_xattr_id_t d2, other;
				if (sqfs_xattr_reader_get_desc(s->xr, idx, &d2) || sqfs_xattr_reader_seek_kv(s->xr, &d2)) { st[pass] = -1; break; }
				for (uint32_t k = 0; k < d2.count && k < 6; k++) {
					key = NULL; val = NULL;
					if (pass) (void)sqfs_xattr_reader_get_desc(s->xr, (uint32_t)(((uint64_t)idx + 1 + k) % ((uint64_t)super.inode_count + 2)), &other);
					st[pass] = sqfs_xattr_reader_read_key(s->xr, &key);
					if (st[pass]) break;
					h[pass] = H(h[pass], key, sizeof(*key) + key->size);
					if (pass) (void)sqfs_xattr_reader_get_desc(s->xr, (uint32_t)(((uint64_t)idx + 2 + k) % ((uint64_t)super.inode_count + 2)), &other);
					st[pass] = sqfs_xattr_reader_read_value(s->xr, key, &val);
					if (st[pass] == 0) h[pass] = H(h[pass], val, sizeof(*val) + val->size);
					sqfs_free(key); sqfs_free(val);
					if (st[pass]) break;
				}
			}
			if (st[0] == 0 && (st[1] != 0 || h[0] != h[1]))
				r.status = -9005;
		}
		break;
	}
	case OP_ID: {
		sqfs_u32 id = 0;
		if (!s->idt) break;
		r.status = sqfs_id_table_index_to_id(s->idt, op->a % (super.id_count + 3), &id);
		if (r.status == 0) r.hash = Hu(r.hash, id);
		break;
	}
	case OP_META: {
		uint8_t buf[300];
		uint64_t blk = nmeta ? metablocks[op->a % nmeta] : 0;
		size_t off = op->b % 9000;
		if (!s->mr) break;
		if (op->c % 7 == 6) blk += 3;
		r.status = sqfs_meta_reader_seek(s->mr, super.inode_table_start + blk, off);
		if (r.status) break;
		r.status = sqfs_meta_reader_read(s->mr, buf, 1 + op->c % sizeof(buf));
		if (r.status == 0) r.hash = H(r.hash, buf, 1 + op->c % sizeof(buf));
		break;
	}
	case OP_CONSIST: {
		/* the three ways to read file data must agree: stream, positional read, blocks + fragment */
		sqfs_istream_t *strm = NULL;
		uint64_t size = 0, pos = 0, h1 = H0, h2 = H0, h3 = H0;
		static uint8_t buf[1 << 20];
		if (!s->dr || !s->data) break;
		r.status = sqfs_dir_reader_get_inode(s->dr, ref, &ino);
		if (r.status) break;
		if (ino->base.type != SQFS_INODE_FILE && ino->base.type != SQFS_INODE_EXT_FILE) { r.status = -9997; break; }
		sqfs_inode_get_file_size(ino, &size);
		if (size > (8u << 20)) { r.status = -9996; break; }
		r.status = sqfs_data_reader_create_stream(s->data, ino, "f", &strm);
		if (r.status) break;
		for (;;) {
			sqfs_s32 n = sqfs_istream_read(strm, buf, 1 + op->b % 70000);
			if (n < 0) { r.status = n; break; }
			if (n == 0) break;
			h1 = H(h1, buf, n);
			pos += n;
			if (pos > size) break;
		}
		sqfs_drop(strm);
		if (r.status) break;
		if (pos != size) { r.status = -9001; r.hash = Hu(H0, pos); break; }
		for (pos = 0; pos < size; ) {
			sqfs_s32 n = sqfs_data_reader_read(s->data, ino, pos, buf, 1 + op->c % 60000);
			if (n <= 0) { r.status = n < 0 ? n : -9002; break; }
			h2 = H(h2, buf, n);
			pos += n;
		}
		if (r.status) break;
		{
			size_t nblk = sqfs_inode_get_file_block_count(ino);
			for (size_t i = 0; i < nblk && r.status == 0; i++) {
				size_t bsz = 0; sqfs_u8 *out = NULL;
				r.status = sqfs_data_reader_get_block(s->data, ino, i, &bsz, &out);
				if (r.status == 0 && out) h3 = H(h3, out, bsz);
				free(out);
			}
			if (r.status == 0) {
				size_t fsz = 0; sqfs_u8 *out = NULL;
				r.status = sqfs_data_reader_get_fragment(s->data, ino, &fsz, &out);
				if (r.status == 0 && out) h3 = H(h3, out, fsz);
				free(out);
			}
		}
		if (r.status) break;
		if (h1 != h2) { r.status = -9003; break; }
		if (h1 != h3) { r.status = -9004; break; }
		r.hash = h1;
		break;
	}
	case OP_INUM: {
		uint64_t out = 0;
		uint32_t inum = ncat ? cat[op->a % ncat].inum : 1;
		if (!s->dr) break;
		if (op->c % 5 == 4) inum += 100000;
		r.status = sqfs_dir_reader_resolve_inum(s->dr, inum, &out);
		if (r.status == 0) r.hash = Hu(r.hash, out);
		break;
	}
	}
	sqfs_free(ino);
	return r;
}

/* ------------------------------------------------------------------ reference (fresh readers, memoised) */
#define MEMO (1 << 16)
static struct { uint64_t key; res_t r; int used; } memo[MEMO];

static uint64_t op_key(const op_t *op)
{
	uint64_t h = Hu(H0, op->kind);
	h = Hu(h, op->a); h = Hu(h, op->b); h = Hu(h, op->c);
	return h ? h : 1;
}

static res_t reference(const op_t *op, long *fresh_sets)
{
	uint64_t k = op_key(op);
	size_t i = k & (MEMO - 1);
	for (int probe = 0; probe < 8; probe++, i = (i + 1) & (MEMO - 1)) {
		if (memo[i].used && memo[i].key == k)
			return memo[i].r;
		if (!memo[i].used)
			break;
	}
	rset_t f;
	rset_create(&f, NULL, NULL, 0, NULL);
	path_fill = 0x5A;
	res_t r = do_op(&f, op);
	path_fill = 0;
	rset_destroy(&f);
	(*fresh_sets)++;
	if (!memo[i].used) {
		memo[i].used = 1; memo[i].key = k; memo[i].r = r;
	}
	return r;
}

/* ------------------------------------------------------------------ histories */
static int consist_matters;
static struct { long hist, ops, faults_io, faults_alloc, hit_ops, hit_failed, hit_ok, viol, fresh, ok_calls, err_calls, agg_lo; uint64_t agg; long kinds[OP_COUNT]; } A;

static void gen_op(sim_rng_t *r, op_t *op)
{
	static const int w[] = { OP_INODE, OP_INODE, OP_LIST, OP_LIST, OP_RESOLVE, OP_READ, OP_READ, OP_BLOCK, OP_FRAG, OP_STREAM, OP_XALL, OP_XSTEP,
				 OP_ID, OP_META, OP_META, OP_INUM, OP_CONSIST };
	op->kind = w[sim_rng_below(r, sizeof(w) / sizeof(w[0]))];
	op->a = sim_rng_next(r);
	op->b = sim_rng_next(r);
	op->c = sim_rng_next(r);
}

static int run_history(const op_t *ops, size_t n, const long *fail, size_t nfail, long afail, int verbose, size_t *bad_index, char *why, size_t whylen)
{
	long calls = 0;
	int hit = 0, viol = 0;
	rset_t s;
	char plan[64];
	/* faults are injected into the calls of the history, not into the construction of the reader objects */
	sim_reset_all();
	calls = -100000000;   /* no fault ordinal matches while the objects are being built */
	rset_create(&s, &calls, fail, nfail, &hit);
	calls = 0;
	snprintf(plan, sizeof(plan), "sched off\nalloc_fail %ld\n", afail);
	sim_load_plan_text(plan);
	for (size_t i = 0; i < n; i++) {
		long a0 = sim_alloc_count();
		hit = 0;
		res_t got = do_op(&s, &ops[i]);
		int alloc_hit = afail && a0 < afail && sim_alloc_count() >= afail;
		int was_hit = hit || alloc_hit;
		/* the reference must not be disturbed by the plan: switch the simulator off while computing it */
		long allocs_now = sim_alloc_count();
		(void)allocs_now;
		sim_active = 0;
		res_t want = reference(&ops[i], &A.fresh);
		sim_active = 1;
		A.ops++;
		A.kinds[ops[i].kind]++;
		if (got.status == 0) A.ok_calls++; else A.err_calls++;
		if (was_hit) {
			A.hit_ops++;
			if (got.status != 0) A.hit_failed++; else A.hit_ok++;
		}
		int bad = 0;
		if (!was_hit) {
			bad = got.status != want.status || (got.status == 0 && got.hash != want.hash);
			/* status -9999 = reader object missing because its creation was hit by a fault: not a verdict on the library */
			if (got.status == -9999 || want.status == -9999) bad = 0;
		} else {
			bad = got.status == 0 && (want.status != 0 || got.hash != want.hash);
		}
		if (verbose)
			printf("  op %zu %s a=%u b=%u c=%u -> status %d hash %016llx (reference %d %016llx)%s%s\n", i, opname[ops[i].kind], ops[i].a, ops[i].b,
			       ops[i].c, got.status, (unsigned long long)got.hash, want.status, (unsigned long long)want.hash, was_hit ? " [fault]" : "", bad ? " <-- DIVERGES" : "");
		if (!bad && !was_hit && consist_matters && got.status <= -9001 && got.status >= -9005) {
			bad = 1;
		}
		if (bad && !viol) {
			viol = 1;
			*bad_index = i;
			snprintf(why, whylen, "%s:%s", opname[ops[i].kind],
				 was_hit ? "wrong-success-under-fault" : (got.status != want.status ? "status-differs-from-fresh-reader" : "payload-differs-from-fresh-reader"));
		}
		A.agg = Hu(Hu(A.agg, (uint64_t)(int64_t)got.status), got.hash);
	}
	rset_destroy(&s);
	sim_active = 0;
	return viol;
}

static void print_hist(const op_t *ops, size_t n, const long *fail, size_t nfail, long afail)
{
	printf("ops=");
	for (size_t i = 0; i < n; i++)
		printf("%d,%u,%u,%u%s", ops[i].kind, ops[i].a, ops[i].b, ops[i].c, i + 1 < n ? ";" : "");
	printf(" fails=");
	for (size_t i = 0; i < nfail; i++)
		printf("%ld%s", fail[i], i + 1 < nfail ? "," : "");
	printf(" afail=%ld", afail);
}

int main(int argc, char **argv)
{
	setvbuf(stdout, NULL, _IOLBF, 0);
	if (argc < 3) {
		fprintf(stderr, "usage: scn-reader run <image> <master> <from> <to> [len] | hist <image> <ops> <fails> <afail>\n");
		return 2;
	}
	FILE *fp = fopen(argv[2], "rb");
	if (!fp) { perror(argv[2]); return 2; }
	fseek(fp, 0, SEEK_END);
	image_size = ftell(fp);
	fseek(fp, 0, SEEK_SET);
	uint8_t *img = malloc(image_size + 1);
	if (fread(img, 1, image_size, fp) != image_size) { perror("read"); return 2; }
	fclose(fp);
	image = img;
	{
		sqfs_file_t *f = memfile_create(image, image_size, NULL, NULL, 0, NULL);
		int rc = sqfs_super_read(&super, f);
		sqfs_drop(f);
		if (rc) { printf("SKIP superblock unreadable (%d)\n", rc); return 0; }
	}
	{
		rset_t f;
		rset_create(&f, NULL, NULL, 0, NULL);
		catalogue_walk(&f, super.root_inode_ref, "", 0);
		rset_destroy(&f);
	}
	consist_matters = getenv("SCN_VALID_IMAGE") != NULL;
	if (!strcmp(argv[1], "hist") && argc >= 6) {
		op_t ops[512];
		long fails[64];
		size_t n = 0, nf = 0, bad = 0;
		char why[128] = "";
		for (char *t = strtok(argv[3], ";"); t && n < 512; t = strtok(NULL, ";")) {
			if (sscanf(t, "%d,%u,%u,%u", &ops[n].kind, &ops[n].a, &ops[n].b, &ops[n].c) == 4)
				n++;
		}
		for (char *t = strtok(argv[4], ","); t && nf < 64; t = strtok(NULL, ","))
			fails[nf++] = atol(t);
		int v = run_history(ops, n, fails, nf, atol(argv[5]), 1, &bad, why, sizeof(why));
		printf("RESULT viol=%d index=%zu why=%s agg=%016llx\n", v, bad, why, (unsigned long long)A.agg);
		return v ? 1 : 0;
	}
	if (!strcmp(argv[1], "run") && argc >= 6) {
		uint64_t master = strtoull(argv[3], NULL, 0), from = strtoull(argv[4], NULL, 0), to = strtoull(argv[5], NULL, 0);
		size_t maxlen = argc >= 7 ? atoi(argv[6]) : 40;
		for (uint64_t h = from; h < to; h++) {
			sim_rng_t r;
			uint64_t x = master * 0x9e3779b97f4a7c15ULL + h;
			op_t ops[512];
			long fails[8];
			size_t nf = 0, bad = 0;
			char why[128] = "";
			sim_rng_seed(&r, sim_splitmix(&x));
			size_t n = 3 + sim_rng_below(&r, maxlen);
			if (n > 512) n = 512;
			for (size_t i = 0; i < n; i++)
				gen_op(&r, &ops[i]);
			/* repeats and returns: the interesting bugs are A, (failed) B, A again */
			for (size_t i = 2; i < n; i++)
				if (sim_rng_below(&r, 4) == 0)
					ops[i] = ops[sim_rng_below(&r, i)];
			int mode = sim_rng_below(&r, 4);
			long afail = 0;
			if (mode >= 1) {
				nf = 1 + sim_rng_below(&r, 3);
				for (size_t i = 0; i < nf; i++)
					fails[i] = 1 + sim_rng_below(&r, 4 * n);
				A.faults_io += nf;
			}
			if (mode == 3) {
				afail = 1 + sim_rng_below(&r, 6 * n);
				A.faults_alloc++;
			}
			A.hist++;
			if (run_history(ops, n, fails, nf, afail, 0, &bad, why, sizeof(why))) {
				A.viol++;
				printf("VIOL hist=%llu index=%zu why=%s ", (unsigned long long)h, bad, why);
				print_hist(ops, n, fails, nf, afail);
				printf("\n");
			}
		}
		printf("STAT hist=%ld ops=%ld viol=%ld io_faults=%ld alloc_faults=%ld hit_ops=%ld hit_failed=%ld hit_ok=%ld fresh_sets=%ld ok_calls=%ld err_calls=%ld "
		       "catalogue=%zu paths=%zu metablocks=%zu agg=%016llx", A.hist, A.ops, A.viol, A.faults_io, A.faults_alloc, A.hit_ops, A.hit_failed, A.hit_ok,
		       A.fresh, A.ok_calls, A.err_calls, ncat, npaths, nmeta, (unsigned long long)A.agg);
		for (int k = 0; k < OP_COUNT; k++)
			printf(" k_%s=%ld", opname[k], A.kinds[k]);
		printf("\n");
		return 0;
	}
	return 2;
}
