/* in-memory sqfs_file_t used by the scenario drivers: read-only view with transient fault hooks,
 * or a growable writable buffer */
#ifndef SCN_MEMFILE_H
#define SCN_MEMFILE_H
#include <stdint.h>
#include <string.h>
#include "sqfs/io.h"
#include "sqfs/error.h"

typedef struct {
	sqfs_file_t base;
	const uint8_t *data;
	uint8_t *wdata;       /* writable mode */
	size_t size, cap;
	int writable;
	long *calls;
	const long *fail;
	size_t nfail;
	int *hit;
} memfile_t;

static void mem_destroy(sqfs_object_t *o)
{
	memfile_t *m = (memfile_t *)o;
	free(m->wdata);
	free(m);
}

static sqfs_object_t *mem_copy(const sqfs_object_t *o)
{
	const memfile_t *m = (const memfile_t *)o;
	memfile_t *c;
	if (m->writable)
		return NULL;
	c = malloc(sizeof(*c));
	if (c)
		memcpy(c, o, sizeof(*c));
	return (sqfs_object_t *)c;
}

static int mem_read_at(sqfs_file_t *f, sqfs_u64 off, void *buf, size_t size)
{
	memfile_t *m = (memfile_t *)f;
	const uint8_t *src = m->writable ? m->wdata : m->data;
	if (m->calls) {
		long k = ++(*m->calls);
		for (size_t i = 0; i < m->nfail; i++)
			if (m->fail[i] == k) {
				if (m->hit)
					*m->hit = 1;
				return SQFS_ERROR_IO;
			}
	}
	if (off > m->size || size > m->size - off)
		return SQFS_ERROR_OUT_OF_BOUNDS;
	memcpy(buf, src + off, size);
	return 0;
}

static int mem_write_at(sqfs_file_t *f, sqfs_u64 off, const void *buf, size_t size)
{
	memfile_t *m = (memfile_t *)f;
	if (!m->writable)
		return SQFS_ERROR_UNSUPPORTED;
	if (off + size > m->cap) {
		size_t ncap = m->cap ? m->cap : 4096;
		while (ncap < off + size)
			ncap *= 2;
		uint8_t *n = realloc(m->wdata, ncap);
		if (!n)
			return SQFS_ERROR_ALLOC;
		memset(n + m->cap, 0, ncap - m->cap);
		m->wdata = n;
		m->cap = ncap;
	}
	memcpy(m->wdata + off, buf, size);
	if (off + size > m->size)
		m->size = off + size;
	return 0;
}

static sqfs_u64 mem_get_size(const sqfs_file_t *f) { return ((const memfile_t *)f)->size; }

static int mem_truncate(sqfs_file_t *f, sqfs_u64 s)
{
	memfile_t *m = (memfile_t *)f;
	if (!m->writable)
		return SQFS_ERROR_UNSUPPORTED;
	if (s < m->size)
		m->size = s;
	return 0;
}

static const char *mem_filename(sqfs_file_t *f) { (void)f; return "mem"; }

static sqfs_file_t *memfile_create(const uint8_t *data, size_t size, long *calls, const long *fail, size_t nfail, int *hit)
{
	memfile_t *m = calloc(1, sizeof(*m));
	m->base.base.refcount = 1;
	m->base.base.destroy = mem_destroy;
	m->base.base.copy = mem_copy;
	m->base.read_at = mem_read_at;
	m->base.write_at = mem_write_at;
	m->base.get_size = mem_get_size;
	m->base.truncate = mem_truncate;
	m->base.get_filename = mem_filename;
	m->data = data; m->size = size; m->calls = calls; m->fail = fail; m->nfail = nfail; m->hit = hit;
	return (sqfs_file_t *)m;
}

static sqfs_file_t *memfile_create_writable(void)
{
	memfile_t *m = (memfile_t *)memfile_create(NULL, 0, NULL, NULL, 0, NULL);
	m->writable = 1;
	return (sqfs_file_t *)m;
}
#endif
