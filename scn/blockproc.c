/* scn-blockproc: the real block processor + block writer + fragment table + thread pool of libsquashfs, driven
 * in-process under the simos scheduler (properties C02, C08, C13 at library level).
 *
 *   scn-blockproc run <master_seed> <from> <to> [tier]   workloads from..to-1, each with many variants
 *   scn-blockproc spec "<spec string>"                    one explicit (workload, variant) pair (replay / shrinking)
 *
 * One workload = a list of files (blocks and tail ends drawn from small content pools so that duplicates, near
 * duplicates, prefixes and sparse blocks are common), user flags per file, append chunking, sync points.
 * One variant  = workers, backlog, checksum width, compressor mode, scheduler policy + seed, optional fault
 *                (k-th allocation, k-th compressor call, k-th write to the image).
 * Reference    = the same workload through the serial pool implementation with the same checksum width and
 *                compressor mode (computed lazily per combination).
 * Oracles:
 *   readback   : every file decoded by hand from the image bytes + its inode + the fragment table equals the
 *                bytes that were appended (C08: dedup/collisions never change data);
 *   determinism: image bytes, inode descriptors, fragment table and statistics equal the reference (C02);
 *   monitor    : every write to the image happens on thread 0 (C02 mechanism);
 *   fail-stop  : with an injected fault either some call reports an error, or everything equals the reference
 *                (a fault is never turned into a silently different image) (C13);
 *   liveness   : no deadlock, step budget not exceeded.
 */
#include <stdio.h>
#include <stdlib.h>
#include <string.h>
#include <stdint.h>
#include <errno.h>
#include <stdarg.h>

#include "sqfs/block_processor.h"
#include "sqfs/block_writer.h"
#include "sqfs/frag_table.h"
#include "sqfs/compressor.h"
#include "sqfs/inode.h"
#include "sqfs/block.h"
#include "sqfs/error.h"
#include "sqfs/io.h"
#include "simos.h"
#include "simreal.h"

#define MAXF 40
#define MAXB 8
#define NBLK 7
#define NTAIL 5

typedef struct {
	int nblk;
	uint8_t blk[MAXB];
	int tail;              /* -1 none */
	uint32_t tail_len;
	uint32_t flags;
	uint32_t chunk;        /* 0 = one append per file */
	int sync_after;
} wfile_t;

typedef struct {
	uint64_t wseed;
	uint32_t bs;
	int comp_id;           /* SQFS_COMP_* */
	uint32_t comp_flags;   /* strategy / filter selection: per-block searches inside the compressor */
	int nfiles;
	wfile_t f[MAXF];
	uint8_t *blocks[NBLK];
	uint8_t *tails[NTAIL];
} workload_t;

typedef struct {
	int serial;
	int workers, backlog, hashbits, store, cmpyield;
	char policy[12];
	int sticky, spur, pctd, pcth;
	int stall_tid, stall_from, stall_len;
	uint64_t seed;
	long afail, cfail, wfail;
	char choices[16384];
} variant_t;

typedef struct {
	int err;                /* first error returned by an API call, 0 = none */
	int err_op;             /* index of the op that failed */
	uint8_t *img; size_t img_size;
	uint64_t desc_hash, frag_hash, stat_hash, img_hash;
	char desc[MAXF][160];
	int readback_bad;       /* file index + 1 */
	char readback_what[160];
	int fault_fired;
	long steps, decisions;
	uint64_t dhash;
	int off_main;
} result_t;

/* ------------------------------------------------------------------ image file */
typedef struct {
	sqfs_file_t base;
	uint8_t *data; size_t size, cap;
	long writes, wfail;
	int fired, off_main;
} img_t;

static void img_destroy(sqfs_object_t *o) { img_t *m = (img_t *)o; free(m->data); free(m); }
static int img_read_at(sqfs_file_t *f, sqfs_u64 off, void *buf, size_t size)
{
	img_t *m = (img_t *)f;
	if (sim_self() != 0)
		m->off_main = 1;
	if (off > m->size || size > m->size - off)
		return SQFS_ERROR_OUT_OF_BOUNDS;
	memcpy(buf, m->data + off, size);
	return 0;
}
static int img_write_at(sqfs_file_t *f, sqfs_u64 off, const void *buf, size_t size)
{
	img_t *m = (img_t *)f;
	if (sim_self() != 0)
		m->off_main = 1;
	if (m->wfail && ++m->writes == m->wfail) {
		m->fired = 1;
		return SQFS_ERROR_IO;
	}
	if (off + size > m->cap) {
		size_t ncap = m->cap ? m->cap : 65536;
		while (ncap < off + size)
			ncap *= 2;
		uint8_t *n = __real_realloc(m->data, ncap);
		if (!n)
			return SQFS_ERROR_ALLOC;
		memset(n + m->cap, 0, ncap - m->cap);
		m->data = n;
		m->cap = ncap;
	}
	memcpy(m->data + off, buf, size);
	if (off + size > m->size)
		m->size = off + size;
	return 0;
}
static sqfs_u64 img_get_size(const sqfs_file_t *f) { return ((const img_t *)f)->size; }
static int img_truncate(sqfs_file_t *f, sqfs_u64 s)
{
	img_t *m = (img_t *)f;
	if (sim_self() != 0)
		m->off_main = 1;
	if (s < m->size)
		m->size = s;
	else if (s > m->size) {
		static const uint8_t z = 0;
		if (s > 0) {
			int r = img_write_at(f, s - 1, &z, 1);
			if (r) return r;
		}
	}
	return 0;
}
static const char *img_filename(sqfs_file_t *f) { (void)f; return "mem"; }
static img_t *img_create(long wfail)
{
	img_t *m = __real_calloc(1, sizeof(*m));
	m->base.base.refcount = 1;
	m->base.base.destroy = img_destroy;
	m->base.read_at = img_read_at;
	m->base.write_at = img_write_at;
	m->base.get_size = img_get_size;
	m->base.truncate = img_truncate;
	m->base.get_filename = img_filename;
	m->wfail = wfail;
	return m;
}

/* ------------------------------------------------------------------ helpers */
static uint64_t fnv(uint64_t h, const void *p, size_t n)
{
	const uint8_t *b = p;
	for (size_t i = 0; i < n; i++)
		h = (h ^ b[i]) * 0x100000001b3ULL;
	return h;
}
#define FNV0 1469598103934665603ULL

static void fill_random(sim_rng_t *r, uint8_t *p, size_t n)
{
	for (size_t i = 0; i < n; i++)
		p[i] = (uint8_t)sim_rng_next(r);
}
static void fill_text(sim_rng_t *r, uint8_t *p, size_t n)
{
	static const char *words[] = { "squash", "block ", "fragment ", "table\n", "0000", "inode ", "xattr=", "the ", "\t\t", "deadbeef" };
	size_t o = 0;
	while (o < n) {
		const char *w = words[sim_rng_below(r, 10)];
		size_t l = strlen(w);
		if (l > n - o) l = n - o;
		memcpy(p + o, w, l);
		o += l;
	}
}

static void workload_free(workload_t *w)
{
	for (int i = 0; i < NBLK; i++) free(w->blocks[i]);
	for (int i = 0; i < NTAIL; i++) free(w->tails[i]);
	memset(w, 0, sizeof(*w));
}

static void workload_generate(workload_t *w, uint64_t wseed, int tier)
{
	sim_rng_t r;
	static const uint32_t tl[] = { 1, 7, 100, 300, 1000, 2048, 3000, 4095 };
	memset(w, 0, sizeof(*w));
	w->wseed = wseed;
	sim_rng_seed(&r, wseed ^ 0xb10cb10cULL);
	w->bs = sim_rng_below(&r, 5) == 0 ? 8192 : 4096;
	{
		static const struct { int id; uint32_t flags; } cc[] = {
			{ SQFS_COMP_GZIP, 0 }, { SQFS_COMP_GZIP, 0 }, { SQFS_COMP_GZIP, 0 },
			{ SQFS_COMP_GZIP, SQFS_COMP_FLAG_GZIP_HUFFMAN | SQFS_COMP_FLAG_GZIP_RLE },
			{ SQFS_COMP_GZIP, SQFS_COMP_FLAG_GZIP_DEFAULT | SQFS_COMP_FLAG_GZIP_FILTERED | SQFS_COMP_FLAG_GZIP_FIXED },
			{ SQFS_COMP_GZIP, SQFS_COMP_FLAG_GZIP_ALL },
			{ SQFS_COMP_XZ, 0 }, { SQFS_COMP_XZ, SQFS_COMP_FLAG_XZ_X86 | SQFS_COMP_FLAG_XZ_ARM },
			{ SQFS_COMP_LZ4, 0 }, { SQFS_COMP_LZ4, SQFS_COMP_FLAG_LZ4_HC }, { SQFS_COMP_ZSTD, 0 },
		};
		size_t k = sim_rng_below(&r, sizeof(cc) / sizeof(cc[0]));
		w->comp_id = cc[k].id;
		w->comp_flags = cc[k].flags;
	}
	for (int i = 0; i < NBLK; i++)
		w->blocks[i] = __real_calloc(1, w->bs);
	for (int i = 0; i < NTAIL; i++)
		w->tails[i] = __real_calloc(1, w->bs);
	/* 0: zeros (sparse) 1,2: incompressible 3,4: compressible 5: block 1 with the last byte changed 6: block 3 with byte 0 changed */
	fill_random(&r, w->blocks[1], w->bs);
	fill_random(&r, w->blocks[2], w->bs);
	fill_text(&r, w->blocks[3], w->bs);
	fill_text(&r, w->blocks[4], w->bs);
	memcpy(w->blocks[5], w->blocks[1], w->bs);
	w->blocks[5][w->bs - 1] ^= 0x40;
	memcpy(w->blocks[6], w->blocks[3], w->bs);
	w->blocks[6][0] ^= 0x01;
	/* tails: 0 compressible, 1 incompressible, 2 prefix of block 3, 3 zeros, 4 = tail 0 with one late byte changed */
	fill_text(&r, w->tails[0], w->bs);
	fill_random(&r, w->tails[1], w->bs);
	memcpy(w->tails[2], w->blocks[3], w->bs);
	memcpy(w->tails[4], w->tails[0], w->bs);
	w->tails[4][999] ^= 0x20;
	int maxf = tier ? MAXF : 24;
	w->nfiles = 1 + (int)sim_rng_below(&r, maxf);
	int tailheavy = sim_rng_below(&r, 3) == 0;
	for (int i = 0; i < w->nfiles; i++) {
		wfile_t *f = &w->f[i];
		static const int nb[] = { 0, 0, 0, 1, 1, 2, 3, 5 };
		f->nblk = tailheavy ? (sim_rng_below(&r, 6) == 0) : nb[sim_rng_below(&r, 8)];
		for (int b = 0; b < f->nblk; b++)
			f->blk[b] = (uint8_t)sim_rng_below(&r, NBLK);
		if (f->nblk >= 2 && sim_rng_below(&r, 3) == 0)      /* periodic content */
			for (int b = 1; b < f->nblk; b++)
				f->blk[b] = f->blk[0];
		if (sim_rng_below(&r, 4) != 0 || f->nblk == 0) {
			f->tail = (int)sim_rng_below(&r, NTAIL);
			f->tail_len = tl[sim_rng_below(&r, 8)];
			if (f->tail_len >= w->bs) f->tail_len = w->bs - 1;
			if (f->nblk == 0 && sim_rng_below(&r, 10) == 0)
				f->tail_len = 0;                                /* empty file */
		} else {
			f->tail = -1;
		}
		f->flags = 0;
		if (sim_rng_below(&r, 8) == 0) f->flags |= SQFS_BLK_DONT_COMPRESS;
		if (sim_rng_below(&r, 8) == 0) f->flags |= SQFS_BLK_DONT_FRAGMENT;
		if (sim_rng_below(&r, 10) == 0) f->flags |= SQFS_BLK_DONT_DEDUPLICATE;
		if (sim_rng_below(&r, 12) == 0) f->flags |= SQFS_BLK_IGNORE_SPARSE;
		static const uint32_t ch[] = { 0, 0, 1, 100, 4095, 4096, 4097, 10000 };
		f->chunk = ch[sim_rng_below(&r, 8)];
		f->sync_after = sim_rng_below(&r, 12) == 0;
	}
}

static size_t file_size(const workload_t *w, const wfile_t *f)
{
	return (size_t)f->nblk * w->bs + (f->tail >= 0 ? f->tail_len : 0);
}
static void file_content(const workload_t *w, const wfile_t *f, uint8_t *out)
{
	for (int b = 0; b < f->nblk; b++)
		memcpy(out + (size_t)b * w->bs, w->blocks[f->blk[b]], w->bs);
	if (f->tail >= 0)
		memcpy(out + (size_t)f->nblk * w->bs, w->tails[f->tail], f->tail_len);
}

/* ------------------------------------------------------------------ spec strings */
static void variant_print(const variant_t *v, char *buf, size_t n)
{
	int o = snprintf(buf, n, "serial=%d w=%d q=%d hb=%d store=%d cy=%d pol=%s sticky=%d spur=%d pctd=%d pcth=%d stall=%d,%d,%d seed=%llu afail=%ld cfail=%ld wfail=%ld",
			 v->serial, v->workers, v->backlog, v->hashbits, v->store, v->cmpyield, v->policy, v->sticky, v->spur, v->pctd, v->pcth,
			 v->stall_tid, v->stall_from, v->stall_len, (unsigned long long)v->seed, v->afail, v->cfail, v->wfail);
	if (v->choices[0])
		snprintf(buf + o, n - o, " choices=%s", v->choices);
}
static int variant_parse(const char *s, variant_t *v, uint64_t *wseed, uint64_t *mask, int *tier)
{
	char *dup = strdup(s), *tok, *save = NULL;
	memset(v, 0, sizeof(*v));
	strcpy(v->policy, "rr");
	*mask = ~0ULL; *tier = 0;
	for (tok = strtok_r(dup, " ", &save); tok; tok = strtok_r(NULL, " ", &save)) {
		char *eq = strchr(tok, '=');
		if (!eq) continue;
		*eq++ = 0;
		if (!strcmp(tok, "wl")) *wseed = strtoull(eq, NULL, 0);
		else if (!strcmp(tok, "mask")) *mask = strtoull(eq, NULL, 16);
		else if (!strcmp(tok, "tier")) *tier = atoi(eq);
		else if (!strcmp(tok, "serial")) v->serial = atoi(eq);
		else if (!strcmp(tok, "w")) v->workers = atoi(eq);
		else if (!strcmp(tok, "q")) v->backlog = atoi(eq);
		else if (!strcmp(tok, "hb")) v->hashbits = atoi(eq);
		else if (!strcmp(tok, "store")) v->store = atoi(eq);
		else if (!strcmp(tok, "cy")) v->cmpyield = atoi(eq);
		else if (!strcmp(tok, "pol")) snprintf(v->policy, sizeof(v->policy), "%s", eq);
		else if (!strcmp(tok, "sticky")) v->sticky = atoi(eq);
		else if (!strcmp(tok, "spur")) v->spur = atoi(eq);
		else if (!strcmp(tok, "pctd")) v->pctd = atoi(eq);
		else if (!strcmp(tok, "pcth")) v->pcth = atoi(eq);
		else if (!strcmp(tok, "stall")) sscanf(eq, "%d,%d,%d", &v->stall_tid, &v->stall_from, &v->stall_len);
		else if (!strcmp(tok, "seed")) v->seed = strtoull(eq, NULL, 0);
		else if (!strcmp(tok, "afail")) v->afail = atol(eq);
		else if (!strcmp(tok, "cfail")) v->cfail = atol(eq);
		else if (!strcmp(tok, "wfail")) v->wfail = atol(eq);
		else if (!strcmp(tok, "choices")) snprintf(v->choices, sizeof(v->choices), "%s", eq);
	}
	free(dup);
	return 0;
}

static void variant_generate(variant_t *v, uint64_t wseed, int idx, int tier)
{
	sim_rng_t r;
	static const int wk[] = { 1, 2, 2, 3, 4, 4, 6, 8 };
	static const int bl[] = { 1, 2, 3, 5, 10, 40, 200 };
	static const int hb[] = { 0, 0, 0, 8, 3, 1 };
	static const char *pol[] = { "random", "random", "random", "pct", "pct", "rr" };
	memset(v, 0, sizeof(*v));
	sim_rng_seed(&r, wseed * 0x9e3779b97f4a7c15ULL + (uint64_t)idx * 7919 + 13);
	v->workers = wk[sim_rng_below(&r, 8)];
	v->backlog = bl[sim_rng_below(&r, 7)];
	v->hashbits = hb[sim_rng_below(&r, 6)];
	v->store = sim_rng_below(&r, 6) == 0;
	v->cmpyield = sim_rng_below(&r, 2);
	snprintf(v->policy, sizeof(v->policy), "%s", pol[sim_rng_below(&r, 6)]);
	static const int st[] = { 0, 0, 300, 700, 950 };
	v->sticky = st[sim_rng_below(&r, 5)];
	static const int sp[] = { 0, 0, 0, 5, 50, 300 };
	v->spur = sp[sim_rng_below(&r, 6)];
	static const int pd[] = { 1, 2, 3, 5 };
	static const int ph[] = { 100, 500, 3000 };
	v->pctd = pd[sim_rng_below(&r, 4)];
	v->pcth = ph[sim_rng_below(&r, 3)];
	if (sim_rng_below(&r, 3) == 0) {
		static const int sl[] = { 20, 100, 1000, 20000 };
		v->stall_tid = (int)sim_rng_below(&r, v->workers + 1);
		v->stall_from = (int)sim_rng_below(&r, 400);
		v->stall_len = sl[sim_rng_below(&r, 4)];
	}
	v->seed = sim_rng_next(&r) >> 1;
	/* faults: most runs fault free so that the relaxed oracle never hides an ordinary bug */
	int fk = (int)sim_rng_below(&r, tier == 2 ? 3 : (tier ? 6 : 8));      /* tier 2: every variant carries a fault (C13's stage) */
	if (fk == 0) v->afail = 1 + (long)sim_rng_below(&r, tier == 2 ? 700 : 400);
	else if (fk == 1) v->cfail = 1 + (long)sim_rng_below(&r, 60);
	else if (fk == 2) v->wfail = 1 + (long)sim_rng_below(&r, 40);
}

/* ------------------------------------------------------------------ one run */
static const workload_t *cur_w;
static const variant_t *cur_v;
static uint64_t cur_mask;
static int replay_mode;
static int cur_tier;            /* the workload generator depends on it: part of every spec line */
static struct { long runs, viol, deadlocks, faultruns, fault_fired, fault_reported, fault_tolerated, steps, decisions, refs, files, blocks_sparse,
		frag_blocks, dedup_hits, nontrivial; uint64_t agg; } A;

static void print_run_line(FILE *fp, const char *tag)
{
	char buf[20000];
	variant_print(cur_v, buf, sizeof(buf));
	fprintf(fp, "%s wl=%llu mask=%llx tier=%d %s", tag, (unsigned long long)cur_w->wseed, (unsigned long long)cur_mask, cur_tier, buf);
}

static void print_stats(void)
{
	printf("STAT runs=%ld viol=%ld deadlocks=%ld refs=%ld faultruns=%ld fault_fired=%ld fault_reported=%ld fault_tolerated=%ld steps=%ld decisions=%ld "
	       "files=%ld nontrivial=%ld agg=%016llx\n", A.runs, A.viol, A.deadlocks, A.refs, A.faultruns, A.fault_fired, A.fault_reported,
	       A.fault_tolerated, A.steps, A.decisions, A.files, A.nontrivial, (unsigned long long)A.agg);
	fflush(stdout);
}

static void on_deadlock(const char *state)
{
	size_t n;
	const uint32_t *rec = sim_sched_recorded(&n);
	print_run_line(stdout, "VIOL kind=deadlock");
	printf(" detail=%s rec=", state);
	for (size_t i = 0; i < n && i < 3000; i++)
		printf("%u%s", rec[i], i + 1 < n ? "," : "");
	printf("\n");
	A.deadlocks++; A.viol++; A.runs++;
	if (!replay_mode)
		print_stats();
	fflush(stdout);
	_exit(SIM_EXIT_DEADLOCK);
}
static void on_budget(void)
{
	print_run_line(stdout, "VIOL kind=step-budget-exceeded");
	printf("\n");
	fflush(stdout);
	_exit(SIM_EXIT_BUDGET);
}

static int decode_block(sqfs_compressor_t *uncmp, const uint8_t *img, size_t img_size, uint64_t off, uint32_t word, uint8_t *out, uint32_t bs,
			uint32_t *outlen, char *why, size_t whyn)
{
	uint32_t sz = SQFS_ON_DISK_BLOCK_SIZE(word);
	if (off > img_size || sz > img_size - off) {
		snprintf(why, whyn, "block at %llu+%u outside the image (%zu bytes)", (unsigned long long)off, sz, img_size);
		return -1;
	}
	if (sz > bs) {
		snprintf(why, whyn, "on-disk size %u above the block size", sz);
		return -1;
	}
	if (SQFS_IS_BLOCK_COMPRESSED(word)) {
		sqfs_s32 r = uncmp->do_block(uncmp, img + off, sz, out, bs);
		if (r <= 0) {
			snprintf(why, whyn, "block at %llu+%u does not decompress (%d)", (unsigned long long)off, sz, (int)r);
			return -1;
		}
		*outlen = (uint32_t)r;
	} else {
		memcpy(out, img + off, sz);
		*outlen = sz;
	}
	return 0;
}

static void run_one(const workload_t *w, uint64_t mask, const variant_t *v, result_t *res)
{
	char plan[20000];
	int o = 0;
	memset(res, 0, sizeof(*res));
	cur_w = w; cur_v = v; cur_mask = mask;

	o += snprintf(plan + o, sizeof(plan) - o, "seed %llu\nrecord 1\nbudget 400000\n", (unsigned long long)(v->seed ? v->seed : 1));
	if (v->serial) {
		o += snprintf(plan + o, sizeof(plan) - o, "pool serial\nsched rr\n");
	} else {
		if (v->choices[0])
			o += snprintf(plan + o, sizeof(plan) - o, "sched replay\n");
		else if (!strcmp(v->policy, "pct"))
			o += snprintf(plan + o, sizeof(plan) - o, "sched pct %d %d\n", v->pctd, v->pcth);
		else
			o += snprintf(plan + o, sizeof(plan) - o, "sched %s\n", v->policy);
		o += snprintf(plan + o, sizeof(plan) - o, "sticky %d\nspurious %d\n", v->sticky, v->spur);
		if (v->stall_len > 0)
			o += snprintf(plan + o, sizeof(plan) - o, "stall %d %d %d\n", v->stall_tid, v->stall_from, v->stall_len);
	}
	if (v->hashbits) o += snprintf(plan + o, sizeof(plan) - o, "hashbits %d\n", v->hashbits);
	if (v->store) o += snprintf(plan + o, sizeof(plan) - o, "store 1\n");
	if (v->cmpyield) o += snprintf(plan + o, sizeof(plan) - o, "cmpyield 1\n");
	if (v->cfail) o += snprintf(plan + o, sizeof(plan) - o, "cmpfail %ld\n", v->cfail);
	if (v->choices[0]) {
		o += snprintf(plan + o, sizeof(plan) - o, "choice");
		for (const char *p = v->choices; *p; p++)
			plan[o++] = (*p == ',') ? ' ' : *p;
		plan[o++] = '\n';
		plan[o] = 0;
	}
	sim_reset_all();
	sim_deadlock_handler = on_deadlock;
	sim_budget_handler = on_budget;
	if (sim_load_plan_text(plan) != 0) {
		fprintf(stderr, "bad plan\n%s", plan);
		exit(2);
	}

	sqfs_compressor_config_t cfg;
	sqfs_compressor_t *cmp = NULL, *uncmp = NULL;
	img_t *img = img_create(v->wfail);
	sqfs_block_writer_t *wr = NULL;
	sqfs_frag_table_t *tbl = NULL;
	sqfs_block_processor_t *proc = NULL;
	sqfs_inode_generic_t *inodes[MAXF];
	int live[MAXF], nlive = 0, op = 0, rc = 0;
	memset(inodes, 0, sizeof(inodes));

	sqfs_compressor_config_init(&cfg, w->comp_id, w->bs, w->comp_flags);
	if (sqfs_compressor_create(&cfg, &cmp)) { fprintf(stderr, "compressor %d unavailable\n", w->comp_id); exit(2); }
	sqfs_compressor_config_init(&cfg, w->comp_id, w->bs, SQFS_COMP_FLAG_UNCOMPRESS);
	if (sqfs_compressor_create(&cfg, &uncmp)) { fprintf(stderr, "compressor %d unavailable\n", w->comp_id); exit(2); }

	/* allocation faults only inside the component under test: armed after the set-up of the collaborators */
	long a0 = sim_alloc_count();
	if (v->afail)
		sim_alloc_fail_set(a0 + v->afail);

	wr = sqfs_block_writer_create((sqfs_file_t *)img, 0);
	tbl = wr ? sqfs_frag_table_create(0) : NULL;
	if (wr && tbl) {
		sqfs_block_processor_desc_t d;
		memset(&d, 0, sizeof(d));
		d.size = sizeof(d);
		d.max_block_size = w->bs;
		d.num_workers = v->workers;
		d.max_backlog = v->backlog;
		d.cmp = cmp; d.wr = wr; d.tbl = tbl; d.file = (sqfs_file_t *)img; d.uncmp = uncmp;
		rc = sqfs_block_processor_create_ex(&d, &proc);
	} else {
		rc = SQFS_ERROR_ALLOC;
	}
	if (rc != 0 || proc == NULL) {
		res->err = rc ? rc : SQFS_ERROR_ALLOC; res->err_op = -1;
		goto teardown;
	}

	uint8_t *buf = __real_malloc((size_t)MAXB * w->bs + w->bs);
	for (int i = 0; i < w->nfiles && rc == 0; i++) {
		const wfile_t *f = &w->f[i];
		if (!(mask & (1ULL << i)))
			continue;
		size_t n = file_size(w, f), done = 0;
		file_content(w, f, buf);
		live[nlive++] = i;
		op++;
		rc = sqfs_block_processor_begin_file(proc, &inodes[i], NULL, f->flags);
		while (rc == 0 && done < n) {
			size_t c = f->chunk ? f->chunk : n;
			if (c > n - done) c = n - done;
			op++;
			rc = sqfs_block_processor_append(proc, buf + done, c);
			done += c;
		}
		if (rc == 0) { op++; rc = sqfs_block_processor_end_file(proc); }
		if (rc == 0 && f->sync_after) { op++; rc = sqfs_block_processor_sync(proc); }
	}
	free(buf);
	if (rc == 0) { op++; rc = sqfs_block_processor_finish(proc); }
	res->err = rc; res->err_op = op;

teardown:
	res->fault_fired = (v->afail && sim_alloc_count() >= a0 + v->afail) || (v->cfail && sim_cmp_calls() >= v->cfail) || img->fired;
	/* disarm allocation faults for the inspection below */
	sim_alloc_fail_set(0);

	if (res->err == 0 && proc) {
		/* descriptors */
		uint64_t dh = FNV0;
		for (int k = 0; k < nlive; k++) {
			int i = live[k];
			sqfs_inode_generic_t *in = inodes[i];
			sqfs_u64 fsz = 0, start = 0; sqfs_u32 fidx = 0, foff = 0;
			if (in == NULL) { snprintf(res->desc[i], sizeof(res->desc[i]), "NULL"); dh = fnv(dh, "N", 1); continue; }
			sqfs_inode_get_file_size(in, &fsz);
			sqfs_inode_get_file_block_start(in, &start);
			sqfs_inode_get_frag_location(in, &fidx, &foff);
			size_t nb = sqfs_inode_get_file_block_count(in);
			uint64_t bh = fnv(FNV0, in->extra, nb * sizeof(sqfs_u32));
			snprintf(res->desc[i], sizeof(res->desc[i]), "type=%u size=%llu start=%llu frag=%u+%u nblk=%zu sizes=%016llx", in->base.type,
				 (unsigned long long)fsz, (unsigned long long)start, fidx, foff, nb, (unsigned long long)bh);
			dh = fnv(dh, res->desc[i], strlen(res->desc[i]));
			if (getenv("BP_DEBUG"))
				fprintf(stderr, "f%d: %s used=%u\n", i, res->desc[i], in->payload_bytes_used);
		}
		res->desc_hash = dh;
		uint64_t fh = FNV0;
		size_t nfr = sqfs_frag_table_get_size(tbl);
		for (size_t k = 0; k < nfr; k++) {
			sqfs_fragment_t fr;
			if (sqfs_frag_table_lookup(tbl, (sqfs_u32)k, &fr) == 0) {
				fh = fnv(fh, &fr.start_offset, sizeof(fr.start_offset));
				fh = fnv(fh, &fr.size, sizeof(fr.size));
			}
		}
		res->frag_hash = fh;
		const sqfs_block_processor_stats_t *st = sqfs_block_processor_get_stats(proc);
		uint64_t sh = FNV0;
		sh = fnv(sh, &st->input_bytes_read, 8); sh = fnv(sh, &st->output_bytes_generated, 8); sh = fnv(sh, &st->data_block_count, 8);
		sh = fnv(sh, &st->frag_block_count, 8); sh = fnv(sh, &st->sparse_block_count, 8); sh = fnv(sh, &st->total_frag_count, 8);
		sh = fnv(sh, &st->actual_frag_count, 8);
		res->stat_hash = sh;
		res->img_hash = fnv(FNV0, img->data, img->size);

		/* read back by hand */
		uint8_t *exp = __real_malloc((size_t)MAXB * w->bs + w->bs), *blk = __real_malloc(w->bs);
		for (int k = 0; k < nlive && !res->readback_bad; k++) {
			int i = live[k];
			const wfile_t *f = &w->f[i];
			sqfs_inode_generic_t *in = inodes[i];
			size_t n = file_size(w, f);
			char why[120] = "";
			if (in == NULL) { res->readback_bad = i + 1; snprintf(res->readback_what, sizeof(res->readback_what), "no inode"); break; }
			file_content(w, f, exp);
			sqfs_u64 fsz = 0, off = 0; sqfs_u32 fidx = 0, foff = 0;
			sqfs_inode_get_file_size(in, &fsz);
			sqfs_inode_get_file_block_start(in, &off);
			sqfs_inode_get_frag_location(in, &fidx, &foff);
			size_t nb = sqfs_inode_get_file_block_count(in);
			if (fsz != n) { res->readback_bad = i + 1; snprintf(res->readback_what, sizeof(res->readback_what), "file size %llu != %zu", (unsigned long long)fsz, n); break; }
			size_t pos = 0;
			for (size_t b = 0; b < nb && !res->readback_bad; b++) {
				uint32_t word = in->extra[b], want = (n - pos) < w->bs ? (uint32_t)(n - pos) : w->bs, got = 0;
				if (pos >= n) { res->readback_bad = i + 1; snprintf(res->readback_what, sizeof(res->readback_what), "more blocks than data"); break; }
				if (SQFS_IS_SPARSE_BLOCK(word)) {
					memset(blk, 0, want); got = want;
				} else {
					if (decode_block(uncmp, img->data, img->size, off, word, blk, w->bs, &got, why, sizeof(why))) {
						res->readback_bad = i + 1; snprintf(res->readback_what, sizeof(res->readback_what), "block %zu: %s", b, why); break;
					}
					off += SQFS_ON_DISK_BLOCK_SIZE(word);
				}
				if (got != want || memcmp(blk, exp + pos, want)) {
					res->readback_bad = i + 1;
					snprintf(res->readback_what, sizeof(res->readback_what), "block %zu: %u bytes, expected %u, content %s", b, got, want,
						 got == want ? "differs" : "n/a");
					break;
				}
				pos += want;
			}
			if (res->readback_bad) break;
			if (pos < n) {
				size_t tl = n - pos;
				sqfs_fragment_t fr;
				uint32_t got = 0;
				if (fidx == 0xFFFFFFFF) { res->readback_bad = i + 1; snprintf(res->readback_what, sizeof(res->readback_what), "%zu tail bytes but no fragment", tl); break; }
				if (sqfs_frag_table_lookup(tbl, fidx, &fr)) { res->readback_bad = i + 1; snprintf(res->readback_what, sizeof(res->readback_what), "fragment index %u not in table", fidx); break; }
				if (decode_block(uncmp, img->data, img->size, fr.start_offset, fr.size, blk, w->bs, &got, why, sizeof(why))) {
					res->readback_bad = i + 1; snprintf(res->readback_what, sizeof(res->readback_what), "fragment block %u: %s", fidx, why); break;
				}
				if ((size_t)foff + tl > got || memcmp(blk + foff, exp + pos, tl)) {
					res->readback_bad = i + 1;
					snprintf(res->readback_what, sizeof(res->readback_what), "tail of %zu bytes at fragment %u+%u (block has %u bytes): %s", tl, fidx, foff, got,
						 (size_t)foff + tl > got ? "out of range" : "content differs");
					break;
				}
			} else if (fidx != 0xFFFFFFFF && n % w->bs == 0 && nb * (size_t)w->bs == n) {
				/* a fragment reference on a file without tail would be read by nobody; not an error */
			}
		}
		free(exp); free(blk);
		res->img = __real_malloc(img->size ? img->size : 1);
		memcpy(res->img, img->data, img->size);
		res->img_size = img->size;
	}
	res->off_main = img->off_main;
	{
		size_t n;
		sim_sched_recorded(&n);
		res->steps = sim_sched_steps();
		res->decisions = sim_sched_decisions();
		res->dhash = sim_sched_hash();
	}
	if (proc) sqfs_drop(proc);
	for (int i = 0; i < MAXF; i++)
		if (inodes[i]) free(inodes[i]);
	if (tbl) sqfs_drop(tbl);
	if (wr) sqfs_drop(wr);
	sqfs_drop(cmp);
	sqfs_drop(uncmp);
	sqfs_drop(img);
	sim_sched_stop();
}

/* ------------------------------------------------------------------ judging */
static char viol[400];

static int judge(const workload_t *w, const variant_t *v, const result_t *r, const result_t *ref)
{
	int faulted = v->afail || v->cfail || v->wfail;
	viol[0] = 0;
	if (r->off_main) {
		snprintf(viol, sizeof(viol), "image-io-off-main-thread");
		return 1;
	}
	if (!faulted || !r->fault_fired) {
		if (r->err) {
			snprintf(viol, sizeof(viol), "error-without-fault rc=%d at op %d", r->err, r->err_op);
			return 1;
		}
	} else {
		if (r->err)
			return 0;               /* reported: fail-stop satisfied */
		if (v->wfail || v->cfail) {
			/* a failed write or compressor call cannot be tolerated: the data it carried is gone */
			snprintf(viol, sizeof(viol), "fault-swallowed:%s every call returned 0", v->wfail ? "write" : "compress");
			return 1;
		}
		/* allocation failure tolerated: then the result must be the fault-free one */
	}
	if (r->readback_bad) {
		snprintf(viol, sizeof(viol), "%sreadback-wrong-data file %d (%zu bytes): %s", faulted && r->fault_fired ? "fault-swallowed:" : "", r->readback_bad - 1,
			 file_size(w, &w->f[r->readback_bad - 1]), r->readback_what);
		return 1;
	}
	if (ref && !v->serial) {
		const char *what = NULL;
		if (r->img_size != ref->img_size || memcmp(r->img, ref->img, r->img_size)) what = "image-bytes";
		else if (r->desc_hash != ref->desc_hash) what = "inodes";
		else if (r->frag_hash != ref->frag_hash) what = "fragment-table";
		else if (r->stat_hash != ref->stat_hash) what = "statistics";
		if (what) {
			snprintf(viol, sizeof(viol), "%sdiffers-from-serial-reference:%s", faulted && r->fault_fired ? "fault-swallowed:" : "", what);
			return 1;
		}
	}
	return 0;
}

static void free_result(result_t *r) { free(r->img); r->img = NULL; }

#define NREF 12
static struct { int used, hb, store; result_t r; } refs[NREF];

static result_t *get_ref(const workload_t *w, uint64_t mask, int hb, int store)
{
	for (int i = 0; i < NREF; i++)
		if (refs[i].used && refs[i].hb == hb && refs[i].store == store)
			return &refs[i].r;
	for (int i = 0; i < NREF; i++)
		if (!refs[i].used) {
			variant_t sv;
			memset(&sv, 0, sizeof(sv));
			sv.serial = 1; sv.workers = 1; sv.backlog = 10; sv.hashbits = hb; sv.store = store; strcpy(sv.policy, "rr"); sv.seed = 1;
			static variant_t keep[NREF];
			keep[i] = sv;
			run_one(w, mask, &keep[i], &refs[i].r);
			refs[i].used = 1; refs[i].hb = hb; refs[i].store = store;
			A.refs++;
			if (judge(w, &keep[i], &refs[i].r, NULL)) {
				cur_v = &keep[i];
				print_run_line(stdout, "VIOL kind=serial:");
				printf(" what=%s\n", viol);
				A.viol++;
				refs[i].r.err = refs[i].r.err ? refs[i].r.err : -999;
			}
			return &refs[i].r;
		}
	return NULL;
}
static void clear_refs(void)
{
	for (int i = 0; i < NREF; i++) {
		if (refs[i].used) free_result(&refs[i].r);
		refs[i].used = 0;
	}
}

static int run_pair(const workload_t *w, uint64_t mask, const variant_t *v, int announce)
{
	result_t r;
	result_t *ref = get_ref(w, mask, v->hashbits, v->store);
	if (ref == NULL || ref->err)
		return 0;       /* reported already */
	if (announce) {
		cur_w = w; cur_v = v; cur_mask = mask;
		print_run_line(stdout, "RUN");
		printf("\n");
	}
	run_one(w, mask, v, &r);
	int bad = judge(w, v, &r, ref);
	A.runs++;
	A.steps += r.steps; A.decisions += r.decisions;
	A.agg = (A.agg ^ r.dhash ^ r.img_hash) * 0x100000001b3ULL + bad;
	if (r.decisions > 4) A.nontrivial++;
	if (v->afail || v->cfail || v->wfail) {
		A.faultruns++;
		if (r.fault_fired) {
			A.fault_fired++;
			if (r.err) A.fault_reported++; else A.fault_tolerated++;
		}
	}
	if (bad) {
		size_t n;
		const uint32_t *rec = sim_sched_recorded(&n);
		A.viol++;
		cur_w = w; cur_v = v; cur_mask = mask;
		print_run_line(stdout, "VIOL kind=run");
		printf(" what=%s rec=", viol);
		for (size_t k = 0; k < n && k < 3000; k++)
			printf("%u%s", rec[k], k + 1 < n ? "," : "");
		printf("\n");
	}
	free_result(&r);
	return bad;
}

int main(int argc, char **argv)
{
	static workload_t w;
	static variant_t v;
	setvbuf(stdout, NULL, _IOLBF, 0);
	if (argc >= 3 && !strcmp(argv[1], "spec")) {
		uint64_t wseed = 0, mask = ~0ULL;
		int tier = 0;
		replay_mode = 1;
		variant_parse(argv[2], &v, &wseed, &mask, &tier);
		cur_tier = tier;
		workload_generate(&w, wseed, tier);
		int bad = run_pair(&w, mask, &v, 0);
		printf("RESULT viol=%d what=%s\n", bad || A.viol ? 1 : 0, viol);
		return (bad || A.viol) ? 1 : 0;
	}
	if (argc >= 3 && !strcmp(argv[1], "show")) {
		workload_generate(&w, strtoull(argv[2], NULL, 0), argc >= 4 ? atoi(argv[3]) : 0);
		printf("bs=%u comp=%d flags=%#x files=%d\n", w.bs, w.comp_id, w.comp_flags, w.nfiles);
		for (int i = 0; i < w.nfiles; i++) {
			printf(" f%-2d blocks=", i);
			for (int b = 0; b < w.f[i].nblk; b++) printf("%d", w.f[i].blk[b]);
			printf(" tail=%d len=%u flags=%x chunk=%u sync=%d\n", w.f[i].tail, w.f[i].tail >= 0 ? w.f[i].tail_len : 0, w.f[i].flags, w.f[i].chunk, w.f[i].sync_after);
		}
		return 0;
	}
	if (argc >= 5 && !strcmp(argv[1], "run")) {
		uint64_t master = strtoull(argv[2], NULL, 0);
		uint64_t from = strtoull(argv[3], NULL, 0), to = strtoull(argv[4], NULL, 0);
		int tier = argc >= 6 ? atoi(argv[5]) : 0;
		int nvar = tier ? 60 : 24;
		cur_tier = tier;
		for (uint64_t i = from; i < to; i++) {
			uint64_t x = master * 0x9e3779b97f4a7c15ULL + i;
			uint64_t wseed = sim_splitmix(&x) >> 1;
			workload_generate(&w, wseed, tier);
			A.files += w.nfiles;
			for (int k = 0; k < nvar; k++) {
				variant_generate(&v, wseed, k, tier);
				run_pair(&w, ~0ULL, &v, 1);
			}
			clear_refs();
			workload_free(&w);
		}
		print_stats();
		return 0;
	}
	fprintf(stderr, "usage: scn-blockproc run <master> <from> <to> [tier] | spec \"wl=.. mask=.. ...\" | show <wseed>\n");
	return 2;
}
