/* scn-copy: copies of libsquashfs objects are independent, equivalent and safely destroyable (C19).
 *
 *   scn-copy run  <image> <master_seed> <from> <to>
 *   scn-copy spec <image> "<kind> <seed> <npre> <nsteps> <release_order> <afail_j>"
 *
 * One run: object O of a kind gets a seeded pre-copy history P; C = sqfs_copy(O); then a seeded
 * interleaving of operations on O and C; finally both are released in a seeded order, with more
 * operations on the survivor in between. Reference model = twins: TO and TC are independent
 * objects built the same way and given P; TO then receives exactly O's operations and TC exactly
 * C's. Every result on O / C must equal the twin's. Fault: the j-th allocation inside the copy
 * hook fails - the copy must be NULL and O must go on answering like TO.
 */
#include <stdio.h>
#include <stdlib.h>
#include <string.h>
#include <stdint.h>

#include "sqfs/super.h"
#include "sqfs/compressor.h"
#include "sqfs/dir_reader.h"
#include "sqfs/data_reader.h"
#include "sqfs/xattr_reader.h"
#include "sqfs/xattr_writer.h"
#include "sqfs/meta_reader.h"
#include "sqfs/meta_writer.h"
#include "sqfs/dir_writer.h"
#include "sqfs/block_writer.h"
#include "sqfs/frag_table.h"
#include "sqfs/block.h"
#include "sqfs/id_table.h"
#include "sqfs/inode.h"
#include "sqfs/xattr.h"
#include "sqfs/error.h"
#include "sqfs/dir.h"
#include "sqfs/io.h"

#include "simos.h"
#include "simreal.h"
#include "memfile.h"

static uint64_t H(uint64_t h, const void *p, size_t n)
{
	const uint8_t *b = p;
	for (size_t i = 0; i < n; i++)
		h = (h ^ b[i]) * 0x100000001b3ULL;
	return h;
}
#define H0 0xcbf29ce484222325ULL
static uint64_t Hu(uint64_t h, uint64_t v) { return H(h, &v, sizeof(v)); }

static sqfs_super_t super;
static const uint8_t *image;
static size_t image_size;
static uint64_t refs[2048];
static size_t nrefs;
static uint32_t xidx[2048];
static uint64_t dirrefs[2048];      /* the directories among refs[]: their references are what a DOT_ENTRIES reader caches */
static size_t ndirrefs;
static char image_path[4096];

typedef struct { uint32_t op, a, b; } step_t;

typedef struct {
	const char *name;
	void *(*create)(uint64_t seed);
	uint64_t (*apply)(void *obj, const step_t *st);
	void (*release)(void *obj);         /* usually sqfs_drop */
	void *(*copy)(void *obj);           /* usually sqfs_copy */
} kind_t;

static void generic_release(void *o) { sqfs_drop(o); }
static void *generic_copy(void *o) { return sqfs_copy(o); }

/* ---------------------------------------------------------------- compressors */
static int comp_ids[] = { SQFS_COMP_GZIP, SQFS_COMP_XZ, SQFS_COMP_LZ4, SQFS_COMP_ZSTD, SQFS_COMP_LZMA };
static int cur_comp, cur_uncomp;

static void *comp_create(uint64_t seed)
{
	sqfs_compressor_config_t cfg;
	sqfs_compressor_t *c = NULL;
	(void)seed;
	if (sqfs_compressor_config_init(&cfg, comp_ids[cur_comp], 4096, cur_uncomp ? SQFS_COMP_FLAG_UNCOMPRESS : 0))
		return NULL;
	if (sqfs_compressor_create(&cfg, &c))
		return NULL;
	return c;
}

static void fill(uint8_t *buf, size_t n, uint32_t a)
{
	sim_rng_t r;
	sim_rng_seed(&r, a);
	if (a % 3 == 0) {
		for (size_t i = 0; i < n; i++)
			buf[i] = sim_rng_next(&r);
	} else {
		for (size_t i = 0; i < n; i++)
			buf[i] = "squashfs-tools-ng "[(i + a) % 18];
	}
}

static uint64_t comp_apply(void *obj, const step_t *st)
{
	sqfs_compressor_t *c = obj;
	uint8_t in[4096], out[4096], packed[4096];
	uint64_t h = H0;
	size_t n = 1 + st->b % 4096;
	if (st->op % 4 == 3) {
		sqfs_compressor_config_t cfg;
		c->get_configuration(c, &cfg);
		return H(h, &cfg, sizeof(cfg));
	}
	fill(in, n, st->a);
	if (!cur_uncomp) {
		sqfs_s32 r = c->do_block(c, in, n, out, sizeof(out));
		h = Hu(h, (uint64_t)(int64_t)r);
		if (r > 0)
			h = H(h, out, r);
		return h;
	}
	/* uncompress direction: feed it something a compressor of the same kind produced (deterministic), or junk */
	{
		sqfs_compressor_config_t cfg;
		sqfs_compressor_t *cc = NULL;
		sqfs_s32 r, r2;
		sqfs_compressor_config_init(&cfg, comp_ids[cur_comp], 4096, 0);
		if (sqfs_compressor_create(&cfg, &cc))
			return 1;
		r = cc->do_block(cc, in, n, packed, sizeof(packed));
		sqfs_drop(cc);
		if (r <= 0 || st->op % 5 == 4) {
			r = n;
			memcpy(packed, in, n);
		}
		r2 = c->do_block(c, packed, r, out, sizeof(out));
		h = Hu(h, (uint64_t)(int64_t)r2);
		if (r2 > 0)
			h = H(h, out, r2);
	}
	return h;
}

/* ---------------------------------------------------------------- fragment / id table */
static void *ftbl_create(uint64_t seed) { (void)seed; return sqfs_frag_table_create(0); }

static uint64_t ftbl_apply(void *obj, const step_t *st)
{
	sqfs_frag_table_t *t = obj;
	uint64_t h = H0;
	sqfs_u32 idx = 0;
	sqfs_fragment_t f;
	int rc;
	switch (st->op % 4) {
	case 0:
		rc = sqfs_frag_table_append(t, st->a, st->b & 0x1FFFFFF, &idx);
		return Hu(Hu(h, (uint64_t)(int64_t)rc), idx);
	case 1:
		rc = sqfs_frag_table_set(t, st->a % 12, st->b, st->a & 0xFFFF);
		return Hu(h, (uint64_t)(int64_t)rc);
	case 2:
		memset(&f, 0, sizeof(f));
		rc = sqfs_frag_table_lookup(t, st->a % 12, &f);
		h = Hu(h, (uint64_t)(int64_t)rc);
		return rc ? h : H(h, &f, sizeof(f));
	default:
		return Hu(h, sqfs_frag_table_get_size(t));
	}
}

static void *idt_create(uint64_t seed) { (void)seed; return sqfs_id_table_create(0); }

static uint64_t idt_apply(void *obj, const step_t *st)
{
	sqfs_id_table_t *t = obj;
	uint64_t h = H0;
	sqfs_u16 idx = 0;
	sqfs_u32 id = 0;
	int rc;
	if (st->op % 2 == 0) {
		rc = sqfs_id_table_id_to_index(t, st->a % 40, &idx);
		return Hu(Hu(h, (uint64_t)(int64_t)rc), idx);
	}
	rc = sqfs_id_table_index_to_id(t, st->a % 45, &id);
	h = Hu(h, (uint64_t)(int64_t)rc);
	return rc ? h : Hu(h, id);
}

/* ---------------------------------------------------------------- readers over the image */
static sqfs_compressor_t *mk_uncomp(void)
{
	sqfs_compressor_config_t cfg;
	sqfs_compressor_t *c = NULL;
	if (sqfs_compressor_config_init(&cfg, super.compression_id, super.block_size, SQFS_COMP_FLAG_UNCOMPRESS))
		return NULL;
	if (sqfs_compressor_create(&cfg, &c))
		return NULL;
	return c;
}

static void *mr_create(uint64_t seed)
{
	sqfs_file_t *f = memfile_create(image, image_size, NULL, NULL, 0, NULL);
	sqfs_compressor_t *c = mk_uncomp();
	sqfs_meta_reader_t *m = sqfs_meta_reader_create(f, c, super.inode_table_start, super.directory_table_start);
	(void)seed;
	sqfs_drop(f);
	sqfs_drop(c);
	return m;
}

static uint64_t mr_apply(void *obj, const step_t *st)
{
	sqfs_meta_reader_t *m = obj;
	uint8_t buf[200];
	uint64_t h = H0, ref = nrefs ? refs[st->a % nrefs] : 0;
	int rc;
	if (st->op % 3 != 2) {
		rc = sqfs_meta_reader_seek(m, super.inode_table_start + (ref >> 16) + (st->op % 7 == 6 ? 5 : 0), ref & 0xFFFF);
		h = Hu(h, (uint64_t)(int64_t)rc);
		if (rc)
			return h;
	}
	rc = sqfs_meta_reader_read(m, buf, 1 + st->b % sizeof(buf));
	h = Hu(h, (uint64_t)(int64_t)rc);
	return rc ? h : H(h, buf, 1 + st->b % sizeof(buf));
}

static int dr_flags;
static void *dr_create(uint64_t seed)
{
	sqfs_file_t *f = memfile_create(image, image_size, NULL, NULL, 0, NULL);
	sqfs_compressor_t *c = mk_uncomp();
	sqfs_dir_reader_t *d = sqfs_dir_reader_create(&super, c, f, dr_flags);
	(void)seed;
	sqfs_drop(f);
	sqfs_drop(c);
	return d;
}

static uint64_t dr_apply(void *obj, const step_t *st)
{
	sqfs_dir_reader_t *d = obj;
	sqfs_inode_generic_t *ino = NULL;
	uint64_t h = H0, ref = nrefs ? refs[st->a % nrefs] : 0;
	if (ndirrefs && (st->a >> 12) % 2)
		ref = dirrefs[st->a % ndirrefs];
	int rc = sqfs_dir_reader_get_inode(d, ref, &ino);
	h = Hu(h, (uint64_t)(int64_t)rc);
	if (rc)
		return h;
	h = H(h, &ino->base, sizeof(ino->base));
	if (dr_flags & SQFS_DIR_READER_DOT_ENTRIES) {
		/* what the reader remembered about directories it has seen: observable through inode number lookups and "." / ".."
		   (copy and twin share one history, so the documented history dependence of this cache is the same on both sides) */
		sqfs_u64 out = 0;
		int r3 = sqfs_dir_reader_resolve_inum(d, ino->base.inode_number, &out);
		h = Hu(h, (uint64_t)(int64_t)r3);
		if (r3 == 0)
			h = Hu(h, out);
	}
	if (st->op % 2 == 0 && (ino->base.type == SQFS_INODE_DIR || ino->base.type == SQFS_INODE_EXT_DIR)) {
		sqfs_dir_reader_state_t s;
		sqfs_dir_node_t *ent;
		rc = sqfs_dir_reader_open_dir(d, ino, &s, ((dr_flags & SQFS_DIR_READER_DOT_ENTRIES) && st->op % 4 == 0) ? 0 : SQFS_DIR_OPEN_NO_DOT_ENTRIES);
		h = Hu(h, (uint64_t)(int64_t)rc);
		for (uint32_t i = 0; rc == 0 && i < 1 + st->b % 20; i++) {
			int r2 = sqfs_dir_reader_read(d, &s, &ent);
			h = Hu(h, (uint64_t)(int64_t)r2);
			if (r2)
				break;
			h = H(h, ent, sizeof(*ent) + ent->size + 1);
			sqfs_free(ent);
		}
	}
	sqfs_free(ino);
	return h;
}

typedef struct { sqfs_data_reader_t *data; sqfs_dir_reader_t *dr; } dpair_t;

static void *data_create(uint64_t seed)
{
	sqfs_file_t *f = memfile_create(image, image_size, NULL, NULL, 0, NULL);
	sqfs_compressor_t *c = mk_uncomp();
	dpair_t *p = calloc(1, sizeof(*p));
	(void)seed;
	p->data = sqfs_data_reader_create(f, super.block_size, c, 0);
	p->dr = sqfs_dir_reader_create(&super, c, f, 0);
	if (p->data)
		sqfs_data_reader_load_fragment_table(p->data, &super);
	sqfs_drop(f);
	sqfs_drop(c);
	if (!p->data || !p->dr) { sqfs_drop(p->data); sqfs_drop(p->dr); free(p); return NULL; }
	return p;
}

static void *data_copy(void *o)
{
	dpair_t *p = o, *c = calloc(1, sizeof(*c));
	c->data = sqfs_copy(p->data);
	if (!c->data) { free(c); return NULL; }
	c->dr = sqfs_grab(p->dr);   /* helper only: fetches inodes, not under test here */
	return c;
}

static void data_release(void *o)
{
	dpair_t *p = o;
	sqfs_drop(p->data);
	sqfs_drop(p->dr);
	free(p);
}

static uint64_t data_apply(void *obj, const step_t *st)
{
	dpair_t *p = obj;
	sqfs_inode_generic_t *ino = NULL;
	uint8_t buf[9000];
	uint64_t h = H0, ref = nrefs ? refs[st->a % nrefs] : 0, size = 0;
	int rc = sqfs_dir_reader_get_inode(p->dr, ref, &ino);
	if (rc)
		return Hu(h, (uint64_t)(int64_t)rc);
	if (ino->base.type == SQFS_INODE_FILE || ino->base.type == SQFS_INODE_EXT_FILE) {
		sqfs_inode_get_file_size(ino, &size);
		if (st->op % 3 == 0) {
			sqfs_s32 n = sqfs_data_reader_read(p->data, ino, size ? st->b % (size + 1) : 0, buf, 1 + st->b % sizeof(buf));
			h = Hu(h, (uint64_t)(int64_t)n);
			if (n > 0)
				h = H(h, buf, n);
		} else {
			size_t sz = 0;
			sqfs_u8 *out = NULL;
			rc = (st->op % 3 == 1) ? sqfs_data_reader_get_fragment(p->data, ino, &sz, &out)
					       : sqfs_data_reader_get_block(p->data, ino, st->b % 4, &sz, &out);
			h = Hu(h, (uint64_t)(int64_t)rc);
			if (rc == 0 && out)
				h = H(h, out, sz);
			free(out);
		}
	}
	sqfs_free(ino);
	return h;
}

static void *xr_create(uint64_t seed)
{
	sqfs_file_t *f = memfile_create(image, image_size, NULL, NULL, 0, NULL);
	sqfs_compressor_t *c = mk_uncomp();
	sqfs_xattr_reader_t *x = sqfs_xattr_reader_create(0);
	(void)seed;
	if (x && sqfs_xattr_reader_load(x, &super, f, c)) {
		sqfs_drop(x);
		x = NULL;
	}
	sqfs_drop(f);
	sqfs_drop(c);
	return x;
}

static uint64_t xr_apply(void *obj, const step_t *st)
{
	sqfs_xattr_reader_t *x = obj;
	sqfs_xattr_t *list = NULL, *it;
	uint64_t h = H0;
	uint32_t idx = nrefs ? xidx[st->a % nrefs] : 0;
	int rc;
	if (st->op % 5 == 4)
		idx = st->b % 50;
	/* the cursor API: position on a set and read one pair / go on from wherever the cursor is (also in a copy that was taken
	   in the middle of a set, or between a key and its value) / read a key and leave its value unread */
	if (st->op % 16 >= 10) {
		sqfs_xattr_entry_t *key = NULL;
		sqfs_xattr_value_t *val = NULL;
		sqfs_xattr_id_t desc;
		int what = st->op % 16;
		if (what <= 11) {
			rc = sqfs_xattr_reader_get_desc(x, idx, &desc);
			h = Hu(h, (uint64_t)(int64_t)rc);
			if (rc)
				return h;
			h = Hu(h, desc.xattr);
			h = Hu(h, desc.count);
			h = Hu(h, desc.size);
			rc = sqfs_xattr_reader_seek_kv(x, &desc);
			h = Hu(h, (uint64_t)(int64_t)rc);
			if (rc || desc.count == 0)
				return h;
		}
		rc = sqfs_xattr_reader_read_key(x, &key);
		h = Hu(h, (uint64_t)(int64_t)rc);
		if (rc)
			return h;
		h = Hu(h, key->type);
		h = H(h, key->key, key->size);
		if (what != 15 && what != 11) {
			rc = sqfs_xattr_reader_read_value(x, key, &val);
			h = Hu(h, (uint64_t)(int64_t)rc);
			if (rc == 0) {
				h = H(h, val->value, val->size);
				sqfs_free(val);
			}
		}
		sqfs_free(key);
		return h;
	}
	rc = sqfs_xattr_reader_read_all(x, idx, &list);
	h = Hu(h, (uint64_t)(int64_t)rc);
	for (it = list; rc == 0 && it; it = it->next) {
		h = H(h, it->key, strlen(it->key) + 1);
		h = H(h, it->value, it->value_len);
	}
	sqfs_xattr_list_free(list);
	return h;
}

/* ---------------------------------------------------------------- read-only native file */
static void *file_create(uint64_t seed)
{
	sqfs_file_t *f = NULL;
	(void)seed;
	if (sqfs_file_open(&f, image_path, SQFS_FILE_OPEN_READ_ONLY))
		return NULL;
	return f;
}

static uint64_t file_apply(void *obj, const step_t *st)
{
	sqfs_file_t *f = obj;
	uint8_t buf[700];
	uint64_t h = H0, off = st->a % (image_size + 100);
	size_t n = 1 + st->b % sizeof(buf);
	int rc;
	if (st->op % 4 == 3)
		return Hu(h, f->get_size(f));
	rc = f->read_at(f, off, buf, n);
	h = Hu(h, (uint64_t)(int64_t)rc);
	return rc ? h : H(h, buf, n);
}

/* ---------------------------------------------------------------- xattr writer */
static void *xw_create(uint64_t seed) { (void)seed; return sqfs_xattr_writer_create(0); }

static uint64_t xw_flush_hash(sqfs_xattr_writer_t *w)
{
	sqfs_file_t *out = memfile_create_writable();
	sqfs_compressor_config_t cfg;
	sqfs_compressor_t *c = NULL;
	sqfs_super_t sb;
	uint64_t h = H0;
	int rc;
	sqfs_super_init(&sb, 4096, 0, SQFS_COMP_GZIP);
	sqfs_compressor_config_init(&cfg, SQFS_COMP_GZIP, 4096, 0);
	if (sqfs_compressor_create(&cfg, &c)) { sqfs_drop(out); return 2; }
	rc = sqfs_xattr_writer_flush(w, out, &sb, c);
	h = Hu(h, (uint64_t)(int64_t)rc);
	if (rc == 0) {
		memfile_t *m = (memfile_t *)out;
		h = H(h, m->wdata, m->size);
		h = Hu(h, sb.xattr_id_table_start);
	}
	sqfs_drop(c);
	sqfs_drop(out);
	return h;
}

static uint64_t xw_apply(void *obj, const step_t *st)
{
	sqfs_xattr_writer_t *w = obj;
	static const char *keys[] = { "user.a", "user.b", "user.comment", "trusted.t", "security.selinux", "user.long_key_name_for_testing", "bogus.prefix" };
	uint64_t h = H0;
	sqfs_u32 idx = 0xdead;
	char val[300];
	int rc, n = 1 + st->op % 3;
	if (st->op % 11 == 10)
		return xw_flush_hash(w);
	rc = sqfs_xattr_writer_begin(w, 0);
	h = Hu(h, (uint64_t)(int64_t)rc);
	for (int i = 0; i < n; i++) {
		size_t vl = (st->b >> (i * 3)) % 5 == 0 ? 280 : (st->b >> (i * 2)) % 9;
		memset(val, 'a' + (st->a >> i) % 4, sizeof(val));
		rc = sqfs_xattr_writer_add_kv(w, keys[(st->a >> (i * 3)) % 7], val, vl);
		h = Hu(h, (uint64_t)(int64_t)rc);
	}
	rc = sqfs_xattr_writer_end(w, &idx);
	h = Hu(h, (uint64_t)(int64_t)rc);
	return rc ? h : Hu(h, idx);
}

/* ---------------------------------------------------------------- kinds */
enum { K_COMP_FIRST = 0, K_COMP_LAST = 9, K_FTBL, K_IDT, K_MR, K_DR, K_DRDOT, K_DATA, K_XR, K_FILE, K_XW, K_COUNT };
static const char *kind_names[K_COUNT] = { "comp-gzip", "comp-xz", "comp-lz4", "comp-zstd", "comp-lzma", "uncomp-gzip", "uncomp-xz", "uncomp-lz4",
					   "uncomp-zstd", "uncomp-lzma", "frag_table", "id_table", "meta_reader", "dir_reader", "dir_reader_dot",
					   "data_reader", "xattr_reader", "file_ro", "xattr_writer" };

static kind_t get_kind(int k)
{
	kind_t kd = { kind_names[k], NULL, NULL, generic_release, generic_copy };
	if (k <= K_COMP_LAST) {
		cur_comp = k % 5;
		cur_uncomp = k >= 5;
		kd.create = comp_create; kd.apply = comp_apply;
	} else if (k == K_FTBL) { kd.create = ftbl_create; kd.apply = ftbl_apply; }
	else if (k == K_IDT) { kd.create = idt_create; kd.apply = idt_apply; }
	else if (k == K_MR) { kd.create = mr_create; kd.apply = mr_apply; }
	else if (k == K_DR || k == K_DRDOT) { dr_flags = k == K_DRDOT ? SQFS_DIR_READER_DOT_ENTRIES : 0; kd.create = dr_create; kd.apply = dr_apply; }
	else if (k == K_DATA) { kd.create = data_create; kd.apply = data_apply; kd.release = data_release; kd.copy = data_copy; }
	else if (k == K_XR) { kd.create = xr_create; kd.apply = xr_apply; }
	else if (k == K_FILE) { kd.create = file_create; kd.apply = file_apply; }
	else { kd.create = xw_create; kd.apply = xw_apply; }
	return kd;
}

/* ---------------------------------------------------------------- one run */
static struct { long runs, steps, viol, copies_null_fault, copies_ok, alloc_faults_fired, skipped, kinds[K_COUNT]; uint64_t agg; } A;
static char why[256];

static int run_spec(int k, uint64_t seed, int npre, int nsteps, int order, long afail_j, int verbose)
{
	kind_t kd = get_kind(k);
	sim_rng_t r;
	step_t pre[64], st;
	void *O, *C = NULL, *TO, *TC;
	int bad = 0;
	why[0] = 0;
	sim_reset_all();
	sim_rng_seed(&r, seed);
	O = kd.create(seed); TO = kd.create(seed); TC = kd.create(seed);
	if (!O || !TO || !TC) {
		if (O) kd.release(O);
		if (TO) kd.release(TO);
		if (TC) kd.release(TC);
		A.skipped++;
		return 0;
	}
	if (npre > 64) npre = 64;
	for (int i = 0; i < npre; i++) {
		pre[i].op = sim_rng_next(&r); pre[i].a = sim_rng_next(&r); pre[i].b = sim_rng_next(&r);
		uint64_t a = kd.apply(O, &pre[i]), b = kd.apply(TO, &pre[i]), c = kd.apply(TC, &pre[i]);
		if (a != b || a != c) {
			/* twins disagree before any copy exists: the kind is not deterministic enough to be judged this way */
			snprintf(why, sizeof(why), "harness:twins-disagree-before-copy");
			bad = 2;
			goto out;
		}
	}
	/* the copy, possibly with an allocation failure inside the hook */
	{
		char plan[64];
		long a0;
		snprintf(plan, sizeof(plan), "sched off\n");
		sim_load_plan_text(plan);
		a0 = sim_alloc_count();
		if (afail_j > 0) {
			snprintf(plan, sizeof(plan), "sched off\nalloc_fail %ld\n", afail_j);
			sim_reset_all();
			sim_load_plan_text(plan);
			a0 = 0;
		}
		C = kd.copy(O);
		long used = sim_alloc_count() - a0;
		sim_active = 0;
		if (afail_j > 0) {
			if (used >= afail_j) {
				A.alloc_faults_fired++;
				if (C != NULL) {
					/* tolerated the failure and still produced a copy: acceptable only if the copy works; judged below */
				} else {
					A.copies_null_fault++;
				}
			} else if (C == NULL) {
				snprintf(why, sizeof(why), "copy-returned-NULL-without-fault");
				bad = 1;
				goto out;
			}
		} else if (C == NULL) {
			snprintf(why, sizeof(why), "copy-returned-NULL-without-fault");
			bad = 1;
			goto out;
		}
		if (C) A.copies_ok++;
	}
	int o_alive = 1, c_alive = C != NULL;
	int release_at = nsteps > 2 ? (int)(sim_rng_below(&r, nsteps)) : 0;
	for (int i = 0; i < nsteps && !bad; i++) {
		st.op = sim_rng_next(&r); st.a = sim_rng_next(&r); st.b = sim_rng_next(&r);
		int on_copy = sim_rng_below(&r, 2);
		if (i == release_at) {
			/* release one of the two here, keep working with the survivor */
			if (order == 0 && o_alive && c_alive) { kd.release(O); O = NULL; o_alive = 0; }
			else if (order == 1 && c_alive) { kd.release(C); C = NULL; c_alive = 0; }
		}
		if (on_copy && !c_alive) on_copy = 0;
		if (!on_copy && !o_alive) on_copy = 1;
		if (on_copy && !c_alive) break;
		uint64_t got = kd.apply(on_copy ? C : O, &st);
		uint64_t want = kd.apply(on_copy ? TC : TO, &st);
		A.steps++;
		A.agg = Hu(A.agg, got);
		if (verbose)
			printf("  step %d on %s op=%u a=%u b=%u -> %016llx (twin %016llx)%s\n", i, on_copy ? "copy" : "original", st.op, st.a, st.b,
			       (unsigned long long)got, (unsigned long long)want, got != want ? " <-- DIVERGES" : "");
		if (got != want) {
			snprintf(why, sizeof(why), "%s-diverges-from-twin%s", on_copy ? "copy" : "original",
				 (on_copy ? o_alive : c_alive) ? "" : "-after-other-was-released");
			bad = 1;
		}
	}
out:
	if (O) kd.release(O);
	if (C) kd.release(C);
	kd.release(TO);
	kd.release(TC);
	sim_active = 0;
	return bad;
}

static void negative_checks(void)
{
	/* objects without a copy hook must refuse; a writable file must refuse */
	sqfs_file_t *w = memfile_create_writable();
	sqfs_compressor_config_t cfg;
	sqfs_compressor_t *c = NULL;
	sqfs_meta_writer_t *mw;
	sqfs_dir_writer_t *dw;
	sqfs_block_writer_t *bw;
	sqfs_compressor_config_init(&cfg, SQFS_COMP_GZIP, 4096, 0);
	sqfs_compressor_create(&cfg, &c);
	mw = sqfs_meta_writer_create(w, c, 0);
	dw = sqfs_dir_writer_create(mw, 0);
	bw = sqfs_block_writer_create(w, 0);
	if (sqfs_copy(mw) != NULL) printf("VIOL kind=meta_writer why=copy-of-uncopyable-object-succeeded\n");
	if (sqfs_copy(dw) != NULL) printf("VIOL kind=dir_writer why=copy-of-uncopyable-object-succeeded\n");
	if (sqfs_copy(bw) != NULL) printf("VIOL kind=block_writer why=copy-of-uncopyable-object-succeeded\n");
	sqfs_drop(dw); sqfs_drop(mw); sqfs_drop(bw); sqfs_drop(c); sqfs_drop(w);
	{
		char path[4200];
		sqfs_file_t *f = NULL;
		snprintf(path, sizeof(path), "%s.wr", image_path);
		if (sqfs_file_open(&f, path, SQFS_FILE_OPEN_OVERWRITE) == 0) {
			void *cp = sqfs_copy(f);
			if (cp != NULL) {
				printf("VIOL kind=file_rw why=copy-of-writable-file-succeeded\n");
				sqfs_drop(cp);
			}
			sqfs_drop(f);
			remove(path);
		}
	}
}

int main(int argc, char **argv)
{
	setvbuf(stdout, NULL, _IOLBF, 0);
	if (argc < 3)
		return 2;
	snprintf(image_path, sizeof(image_path), "%s", argv[2]);
	FILE *fp = fopen(argv[2], "rb");
	if (!fp) { perror(argv[2]); return 2; }
	fseek(fp, 0, SEEK_END);
	image_size = ftell(fp);
	fseek(fp, 0, SEEK_SET);
	uint8_t *img = malloc(image_size + 1);
	if (fread(img, 1, image_size, fp) != image_size) return 2;
	fclose(fp);
	image = img;
	{
		sqfs_file_t *f = memfile_create(image, image_size, NULL, NULL, 0, NULL);
		int rc = sqfs_super_read(&super, f);
		sqfs_drop(f);
		if (rc) { printf("SKIP superblock unreadable\n"); return 0; }
	}
	/* catalogue of inode references (breadth first through the real readers) */
	{
		dr_flags = 0;
		sqfs_dir_reader_t *d = dr_create(0);
		refs[nrefs++] = super.root_inode_ref;
		for (size_t i = 0; i < nrefs && nrefs < 2000 && d; i++) {
			sqfs_inode_generic_t *ino = NULL;
			sqfs_dir_reader_state_t s;
			sqfs_dir_node_t *ent;
			if (sqfs_dir_reader_get_inode(d, refs[i], &ino))
				continue;
			xidx[i] = 0xFFFFFFFF;
			sqfs_inode_get_xattr_index(ino, &xidx[i]);
			if ((ino->base.type == SQFS_INODE_DIR || ino->base.type == SQFS_INODE_EXT_DIR) && ndirrefs < 2048)
				dirrefs[ndirrefs++] = refs[i];
			if ((ino->base.type == SQFS_INODE_DIR || ino->base.type == SQFS_INODE_EXT_DIR) && sqfs_dir_reader_open_dir(d, ino, &s, 0) == 0) {
				while (nrefs < 2000 && sqfs_dir_reader_read(d, &s, &ent) == 0) {
					refs[nrefs++] = s.ent_ref;
					sqfs_free(ent);
				}
			}
			sqfs_free(ino);
		}
		sqfs_drop(d);
	}
	if (!strcmp(argv[1], "spec") && argc >= 4) {
		int k, npre, nsteps, order; unsigned long long seed; long j;
		if (sscanf(argv[3], "%d %llu %d %d %d %ld", &k, &seed, &npre, &nsteps, &order, &j) != 6)
			return 2;
		int v = run_spec(k, seed, npre, nsteps, order, j, 1);
		printf("RESULT viol=%d kind=%s why=%s\n", v, kind_names[k], why);
		return v == 1 ? 1 : 0;
	}
	if (!strcmp(argv[1], "run") && argc >= 6) {
		uint64_t master = strtoull(argv[3], NULL, 0), from = strtoull(argv[4], NULL, 0), to = strtoull(argv[5], NULL, 0);
		negative_checks();
		for (uint64_t i = from; i < to; i++) {
			sim_rng_t r;
			uint64_t x = master * 0x9e3779b97f4a7c15ULL + i;
			sim_rng_seed(&r, sim_splitmix(&x));
			int k = sim_rng_below(&r, K_COUNT);
			uint64_t seed = sim_rng_next(&r) >> 1;
			int npre = sim_rng_below(&r, 14), nsteps = 2 + sim_rng_below(&r, 24), order = sim_rng_below(&r, 3);
			long j = sim_rng_below(&r, 3) == 0 ? 1 + (long)sim_rng_below(&r, 6) : 0;
			if (getenv("SCN_NO_FAULTS"))
				j = 0;
			/* a crash inside release/copy kills the process: say first what is about to run */
			printf("RUN %llu kind=%s spec=%d %llu %d %d %d %ld\n", (unsigned long long)i, kind_names[k], k, (unsigned long long)seed, npre, nsteps, order, j);
			int v = run_spec(k, seed, npre, nsteps, order, j, 0);
			A.runs++;
			A.kinds[k]++;
			if (v == 1) {
				A.viol++;
				printf("VIOL kind=%s why=%s spec=%d %llu %d %d %d %ld\n", kind_names[k], why, k, (unsigned long long)seed, npre, nsteps, order, j);
			} else if (v == 2) {
				printf("HARNESS kind=%s why=%s\n", kind_names[k], why);
			}
		}
		printf("STAT runs=%ld steps=%ld viol=%ld copies_ok=%ld copies_null_under_fault=%ld alloc_faults_fired=%ld skipped=%ld agg=%016llx", A.runs, A.steps,
		       A.viol, A.copies_ok, A.copies_null_fault, A.alloc_faults_fired, A.skipped, (unsigned long long)A.agg);
		for (int k = 0; k < K_COUNT; k++)
			printf(" k_%s=%ld", kind_names[k], A.kinds[k]);
		printf("\n");
		return 0;
	}
	return 2;
}
