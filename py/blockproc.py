"""Library-level stage shared by C02, C08, C09 and C13: scn-blockproc drives the real block processor, block writer, fragment
table and thread pool in-process under the simos scheduler (see scn/blockproc.c for the workload, variant and oracle definitions).

stage(rep, prop, bdir, seed, tier) runs a slice of (workload, variant) pairs and reports, under the calling property, the
violation classes that belong to it:

  C02  differs-from-serial-reference:*  image-io-off-main-thread  error-without-fault (threaded run fails, serial does not)  crash
  C08  readback-wrong-data (threaded or serial, any checksum width)
  C09  deadlock  step-budget-exceeded
  C13  fault-swallowed:*  (injected allocation / compressor / write fault neither reported nor harmless)

Every reported violation is re-run twice in fresh processes (same class, same schedule hash), put into replay form (recorded
decisions instead of the PRNG policy), minimised (files dropped from the workload mask, fewer workers, options zeroed) and written
as a replay file with engine=scn-blockproc.
"""
import os, re, subprocess, sys, json
from common import *
import vfbuild

OWN = {
    "C02": lambda c: c.startswith(("differs-from-serial-reference", "image-io-off-main-thread", "error-without-fault", "crash", "serial:error-without-fault")),
    "C08": lambda c: "readback-wrong-data" in c and not c.startswith("fault-swallowed"),
    "C09": lambda c: c.startswith(("deadlock", "step-budget-exceeded")),
    "C13": lambda c: c.startswith("fault-swallowed"),
}
ORDER = ["wl", "mask", "tier", "serial", "w", "q", "hb", "store", "cy", "pol", "sticky", "spur", "pctd", "pcth", "stall", "seed", "afail", "cfail", "wfail",
         "choices"]


def vclass(kind, what):
    if kind in ("deadlock", "step-budget-exceeded"):
        return kind
    tok = (what or "?").split()[0]
    tok = re.sub(r"\d+", "N", tok)
    return ("serial:" if kind.startswith("serial") else "") + tok


def parse(out):
    viols, stats, last_run = [], {}, None
    for line in out.splitlines():
        if line.startswith("RUN "):
            last_run = line[4:]
        elif line.startswith("VIOL "):
            m = re.match(r"VIOL kind=(\S+) (.*)$", line)
            if not m:
                continue
            kind, rest = m.group(1), m.group(2)
            rec = ""
            mr = re.search(r" rec=([\d,]*)$", rest)
            if mr:
                rec = mr.group(1)
                rest = rest[:mr.start()]
            what = ""
            mw = re.search(r" (?:what|detail)=(.*)$", rest)
            if mw:
                what = mw.group(1)
                rest = rest[:mw.start()]
            viols.append({"kind": kind, "spec": rest.strip(), "what": what, "rec": rec, "class": vclass(kind, what)})
        elif line.startswith("STAT "):
            for kv in line[5:].split():
                k, v = kv.split("=")
                stats[k] = v
    return viols, stats, last_run


def _chunk(args):
    binary, master, lo, hi, tierflag = args
    viols, agg = [], {}
    cur = lo
    guard = 0
    while cur < hi and guard < 50:
        guard += 1
        p = subprocess.run([binary, "run", str(master), str(cur), str(hi), str(tierflag)], stdout=subprocess.PIPE, stderr=subprocess.PIPE, timeout=7200)
        out = p.stdout.decode(errors="replace")
        v, s, last_run = parse(out)
        viols += v
        for k, val in s.items():
            if k != "agg":
                agg[k] = agg.get(k, 0) + int(val)
        if p.returncode == 0:
            break
        # the process died inside a run (deadlock, budget, sanitizer, signal): attribute it to the announced run and continue behind
        # the workload it belongs to (workloads are independent)
        if p.returncode not in (70, 71) and last_run:
            err = p.stderr.decode(errors="replace")
            m = re.search(r"(AddressSanitizer: [\w-]+|runtime error: [\w ]+)", err)
            what = "crash:%s" % ((m.group(1) if m else ("exit-%d" % p.returncode)).replace(" ", "-"))
            d = spec_dict(last_run)
            if any(d.get(k, "0") != "0" for k in ("afail", "cfail", "wfail")):
                what = "fault-swallowed:" + what          # a crash after an injected fault is a fail-stop matter (C13)
            viols.append({"kind": "crash", "spec": last_run, "what": what, "rec": "", "class": what[:70], "stderr": err[-1500:]})
        elif not last_run:
            viols.append({"kind": "harness", "spec": "", "what": "exit %d without a run: %s" % (p.returncode, p.stderr.decode(errors="replace")[-300:]), "rec": "",
                          "class": "harness"})
            break
        # which workload index died? count completed workloads by the number of distinct wl= values seen
        wls = []
        for line in out.splitlines():
            if line.startswith("RUN "):
                w = line.split()[1]
                if not wls or wls[-1] != w:
                    wls.append(w)
        cur = cur + max(1, len(wls))
    return viols, agg


def spec_dict(spec):
    d = {}
    for t in spec.split():
        if "=" in t:
            k, v = t.split("=", 1)
            d[k] = v
    return d


def spec_str(d):
    return " ".join("%s=%s" % (k, d[k]) for k in ORDER if k in d and d[k] != "")


def run_spec(binary, spec):
    p = subprocess.run([binary, "spec", spec], stdout=subprocess.PIPE, stderr=subprocess.PIPE, timeout=300)
    out = p.stdout.decode(errors="replace")
    v, _, _ = parse(out)
    if not v and p.returncode not in (0, 1):
        err = p.stderr.decode(errors="replace")
        m = re.search(r"(AddressSanitizer: [\w-]+|runtime error: [\w ]+)", err)
        what = "crash:%s" % ((m.group(1) if m else ("exit-%d" % p.returncode)).replace(" ", "-"))
        d = spec_dict(spec)
        if any(d.get(k, "0") != "0" for k in ("afail", "cfail", "wfail")):
            what = "fault-swallowed:" + what
        v = [{"kind": "crash", "spec": spec, "what": what, "rec": "", "class": what[:70]}]
    return {"rc": p.returncode, "viols": v, "classes": [x["class"] for x in v]}


def candidates(d):
    d = dict(d)
    mask = int(d.get("mask", "ffffffffffffffff"), 16) & ((1 << 40) - 1)
    bits = [i for i in range(40) if mask >> i & 1]
    # drop halves, then single files (later files first: earlier ones set up the state)
    if len(bits) > 3:
        for part in (bits[len(bits) // 2:], bits[:len(bits) // 2]):
            m2 = mask
            for b in part:
                m2 &= ~(1 << b)
            c = dict(d); c["mask"] = "%x" % m2; yield c
    for b in reversed(bits):
        c = dict(d); c["mask"] = "%x" % (mask & ~(1 << b)); yield c
    w = int(d.get("w", "1"))
    if w > 1:
        c = dict(d); c["w"] = str(w - 1); yield c
        c = dict(d); c["w"] = "1"; yield c
    for k, v0 in (("spur", "0"), ("stall", "0,0,0"), ("cy", "0"), ("store", "0"), ("hb", "0"), ("sticky", "0"), ("afail", "0"), ("cfail", "0"), ("wfail", "0")):
        if d.get(k, v0) != v0:
            c = dict(d); c[k] = v0; yield c
    if d.get("choices"):
        ch = d["choices"].split(",")
        for cut in (len(ch) // 2, len(ch) * 3 // 4):
            if 0 < cut < len(ch):
                c = dict(d); c["choices"] = ",".join(ch[:cut]); yield c
    elif d.get("pol") != "rr":
        c = dict(d); c["pol"] = "rr"; yield c


def minimise(binary, v, budget=250):
    cls = v["class"]
    d = spec_dict(v["spec"])
    if v.get("rec") and not cls.startswith("serial:"):
        r = dict(d); r["choices"] = v["rec"]
        if cls in run_spec(binary, spec_str(r))["classes"]:
            d = r

    def fails(c):
        return cls in run_spec(binary, spec_str(c))["classes"]

    return greedy_shrink(d, candidates, fails, budget)


def replay(spec, bdir=None):
    bdir = bdir or vfbuild.build(variants=("plain", "asan"))
    binary = os.path.join(bdir, spec.get("build", "plain"), "scn-blockproc")
    res = run_spec(binary, spec["spec"])
    ok = spec["class"] in res["classes"]
    print("replay: classes=%s expected=%s -> %s" % (res["classes"], spec["class"], "REPRODUCED" if ok else "not reproduced"))
    return 1 if ok else 0


def stage(rep, prop, bdir, seed, t, workloads=None):
    """returns a coverage dict for the evidence file"""
    plain = os.path.join(bdir, "plain", "scn-blockproc")
    asan = os.path.join(bdir, "asan", "scn-blockproc")
    nw = workloads or (320 if t == "quick" else 20000)
    na = max(NWORKERS, nw // 4)
    tf = 0 if t == "quick" else 1
    if prop == "C13":
        tf = 2          # fault-heavy variants: every run carries an allocation / compressor / write fault
    master = derive(seed, "blockproc", prop) >> 1
    nchunks = NWORKERS * (1 if t == "quick" else 8)
    step = (nw + nchunks - 1) // nchunks
    work = [(plain, master, i * step, min(nw, (i + 1) * step), tf) for i in range(nchunks) if i * step < nw]
    astep = (na + NWORKERS - 1) // NWORKERS
    work += [(asan, derive(master, "asan") >> 1, i * astep, min(na, (i + 1) * astep), tf) for i in range(NWORKERS) if i * astep < na]
    viols, agg = [], {}
    for (v, a), w in zip(pmap(_chunk, work), work):
        for x in v:
            x["binary"] = w[0]
        viols += v
        for k, val in a.items():
            agg[k] = agg.get(k, 0) + val
    byclass = {}
    for v in viols:
        byclass.setdefault(v["class"], v)
    mine = OWN[prop]
    others = sorted(c for c in byclass if not mine(c) and c != "harness")
    for cls, v in sorted(byclass.items()):
        if cls == "harness":
            rep.harness_error("scn-blockproc: " + v["what"])
            continue
        if not mine(cls):
            continue
        binary = v["binary"]
        a = run_spec(binary, v["spec"])
        b = run_spec(binary, v["spec"])
        if cls not in a["classes"] or cls not in b["classes"]:
            rep.harness_error("scn-blockproc violation %s did not reproduce in a fresh process (%s / %s) spec: %s" % (cls, a["classes"], b["classes"], v["spec"]))
            continue
        for x in a["viols"]:
            if x["class"] == cls and x.get("rec"):
                v["rec"] = x["rec"]
        d, runs = minimise(binary, v)
        final = run_spec(binary, spec_str(d))
        fv = [x for x in final["viols"] if x["class"] == cls]
        spec = {"property": prop, "engine": "scn-blockproc", "build": "asan" if binary == asan else "plain", "class": cls, "spec": spec_str(d),
                "original_spec": v["spec"], "what": fv[0]["what"] if fv else v["what"], "minimise_runs": runs, "seed": seed,
                "replay": "./vf replay <this file>", "stderr": v.get("stderr", "")[-800:]}
        path = rep.write_replay("blockproc", spec)
        rep.violation("blockproc:%s" % cls, "library level (scn-blockproc): %s | minimised spec: %s" % (spec["what"], spec["spec"][:300]), path)
    cov = {"engine": "scn-blockproc (real block processor + block writer + fragment table + thread pool, in-process, simos scheduler)",
           "runs": agg.get("runs", 0), "serial_references": agg.get("refs", 0), "scheduler_decisions": agg.get("decisions", 0),
           "runs_with_interleaving": agg.get("nontrivial", 0), "fault_runs": agg.get("faultruns", 0), "faults_fired": agg.get("fault_fired", 0),
           "faults_reported_by_the_library": agg.get("fault_reported", 0), "faults_tolerated_with_identical_result": agg.get("fault_tolerated", 0),
           "files_packed": agg.get("files", 0), "violation_classes_of_other_properties_seen": others}
    return cov


if __name__ == "__main__":
    prop = sys.argv[1] if len(sys.argv) > 1 else "C02"
    rep = Report(prop, "exploration")
    bdir = vfbuild.build()
    cov = stage(rep, prop, bdir, master_seed(), tier())
    print(json.dumps(cov, indent=1))
    sys.exit(rep.finish(dict(cov, evaluations=cov["runs"], distinct_nontrivial=cov["runs_with_interleaving"])))
