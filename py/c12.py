"""C12 — results do not depend on how the OS splits reads and writes.

tool-sim: every pipeline is run once fault-free (reference) and then many times with seeded short
counts / EINTR on read, write, pread, pwrite of every fd class, stdin chunking down to one byte and a
seeded thread schedule. Oracle: outputs and exit status identical to the reference.
"""
import os, sys, re, json
from common import *
import vfbuild, pipelines

PROP = "C12"
REF_PLAN = "seed 1\nsched rr\nreaddir 0\n"

QUICK = [  # kind, profile, number of cases, fault runs per case
    ("gen-packfile", {"nfiles": 6, "ndirs": 2}, 5, 36),
    ("gen-packfile", {"nfiles": 5, "xattrs": True, "hardlinks": True, "hostile": True}, 3, 30),
    ("gen-packdir", {"nfiles": 6, "ndirs": 3, "xattrs": True, "hardlinks": True}, 5, 30),
    ("tar2sqfs", {"nfiles": 6}, 4, 40),
    ("tar2sqfs", {"nfiles": 5, "wrap": "gzip"}, 2, 40),
    ("tar2sqfs", {"nfiles": 5, "wrap": "xz"}, 2, 40),
    ("tar2sqfs", {"nfiles": 5, "wrap": "bzip2"}, 2, 40),
    ("tar2sqfs", {"nfiles": 5, "wrap": "zstd"}, 2, 40),
    ("sqfs2tar", {"nfiles": 6, "hardlinks": True}, 4, 40),
    ("sqfs2tar", {"nfiles": 5, "tarcomp": "gzip"}, 2, 30),
    ("sqfs2tar", {"nfiles": 5, "tarcomp": "xz"}, 2, 30),
    ("sqfs2tar", {"nfiles": 5, "tarcomp": "bzip2"}, 2, 30),
    ("sqfs2tar", {"nfiles": 5, "tarcomp": "zstd"}, 2, 30),
    ("rd-cat", {"nfiles": 5, "big": True}, 5, 36),
    ("rd-list", {"nfiles": 8}, 2, 24),
    ("rd-describe", {"nfiles": 8, "hostile": True}, 2, 24),
    ("rd-xattr", {"nfiles": 5, "xattrs": True}, 2, 24),
    ("rd-stat", {"nfiles": 5}, 2, 24),
    ("rd-unpack", {"nfiles": 7, "xattrs": True, "hardlinks": True}, 6, 36),
]
THOROUGH_MULT = (12, 4)   # x cases, x runs


def gen_plan(r):
    lines = ["seed %d" % r.randrange(1, 1 << 62), "readdir 0"]
    pol = r.choice(["random", "random", "pct 2 300", "rr"])
    lines.append("sched " + pol)
    if pol == "random":
        lines.append("sticky %d" % r.choice([0, 500, 900]))
    for call in ("read", "write", "pread", "pwrite"):
        if r.random() < 0.75:
            rate = r.choice([20, 100, 500, 1000])
            kind = "short1" if rate == 1000 and r.random() < 0.5 else "short"
            lines.append("rate %s * %s %d" % (call, kind, rate))
        if r.random() < 0.4:
            lines.append("rate %s * eintr %d" % (call, r.choice([20, 100, 300])))
    ch = r.choice([None, None, 1, 2, 7, 511, 512, 513, 4095, 131071, 0])
    if ch is not None:
        lines.append("chunk stdin %d" % ch)
    return "\n".join(lines) + "\n"


def explicit_plan(plan, trace):
    """rewrite a rate based plan as explicit faults using what actually fired (R lines)"""
    keep = [l for l in plan.splitlines() if not l.startswith("rate ")]
    faults = []
    for l in trace.lines:
        if l.startswith("R "):
            _, call, cls, ordn, kind, arg = l.split()
            faults.append("fault %s %s %s %s %s" % (call, cls, ordn, kind, arg))
    return keep, faults


def diff_class(ref, o):
    if ref.verdict != o.verdict:
        return "verdict %s->%s" % (ref.verdict, o.verdict)
    for k in sorted(ref.hashes):
        if ref.hashes[k] != o.hashes.get(k):
            return "%s-differs" % k
    if ref.snap != o.snap:
        return "unpacked-tree-differs"
    return None


def work(a):
    bdir, caseseed, kind, profile, nruns, variant = a
    res = {"runs": 0, "mismatch": [], "fired": {}, "ref": None, "case": None, "decisions": 0, "hashes": set(), "err": None}
    try:
        with Scratch("c12") as s:
            cd = os.path.join(s, "case")
            case = pipelines.build_case(bdir, caseseed, kind, profile, cd)
            res["case"] = case.describe()
            ref = pipelines.run_case(bdir, case, cd, REF_PLAN, variant)
            res["ref"] = ref.verdict
            if not ref.verdict.startswith("exit:") or ref.rc not in (0, 1):
                res["err"] = "reference run ended with %s: %s" % (ref.verdict, ref.stderr[-300:])
                return res
            for i in range(nruns):
                plan = gen_plan(rng(caseseed, "plan", kind, i))
                o = pipelines.run_case(bdir, case, cd, plan, variant)
                res["runs"] += 1
                for k, v in o.trace.fired().items():
                    kk = "%s:%s" % k
                    res["fired"][kk] = res["fired"].get(kk, 0) + v
                res["decisions"] += int(o.trace.sched().get("decisions", 0))
                if o.trace.hash and sum(o.trace.fired().values()) > 0:
                    res["hashes"].add(o.trace.hash)
                dc = diff_class(ref, o)
                if dc and len(res["mismatch"]) < 3:
                    res["mismatch"].append({"class": dc, "plan": plan, "i": i, "stderr": o.stderr[-300:].decode(errors="replace"),
                                            "trace_hash": o.trace.hash})
    except Exception as e:  # harness trouble is never reported as a violation
        res["err"] = "%s: %s" % (type(e).__name__, e)
    res["hashes"] = len(res["hashes"])
    return res


def rerun(bdir, casespec, plan, variant="plain"):
    """fresh scratch, fresh case, reference + plan run -> (diff class or None, outcome)"""
    with Scratch("c12r") as s:
        cd = os.path.join(s, "case")
        case = pipelines.build_case(bdir, casespec["seed"], casespec["kind"], casespec["profile"], cd)
        ref = pipelines.run_case(bdir, case, cd, REF_PLAN, variant)
        o = pipelines.run_case(bdir, case, cd, plan, variant)
        return diff_class(ref, o), o


def replay(spec, bdir=None):
    bdir = bdir or vfbuild.build()
    dc, o = rerun(bdir, spec["case"], spec["plan"], spec.get("variant", "plain"))
    ok = dc == spec["class"]
    print("replay: diff=%s expected=%s trace=%s -> %s" % (dc, spec["class"], o.trace.hash, "REPRODUCED" if ok else "not reproduced"))
    return 1 if ok else 0


def main():
    t = tier()
    seed = master_seed()
    rep = Report(PROP, "exploration")
    bdir = vfbuild.build()
    work_items = []
    cm, rm = (1, 1) if t == "quick" else THOROUGH_MULT
    n = 0
    for kind, prof, ncases, nruns in QUICK:
        for i in range(ncases * cm):
            variant = "asan" if n % 4 == 3 else "plain"
            work_items.append((bdir, derive(seed, "c12", kind, json.dumps(prof, sort_keys=True), i) >> 1, kind, prof, nruns * rm, variant))
            n += 1
    results = list(pmap_unordered(work, work_items))
    runs = sum(r["runs"] for r in results)
    fired = {}
    for r in results:
        for k, v in r["fired"].items():
            fired[k] = fired.get(k, 0) + v
        if r["err"]:
            rep.harness_error("%s: %s" % ((r["case"] or {}).get("kind"), r["err"]))
    # violations: gate + minimise one representative per (tool, class)
    seen = {}
    for r in results:
        for m in r["mismatch"]:
            key = "%s:%s:%s" % (r["case"]["tool"], r["case"]["kind"], m["class"])
            if key not in seen:
                seen[key] = (r, m)
    for key, (r, m) in sorted(seen.items()):
        casespec = {"seed": r["case"]["seed"], "kind": r["case"]["kind"], "profile": r["case"]["profile"]}
        d1, o1 = rerun(bdir, casespec, m["plan"])
        d2, o2 = rerun(bdir, casespec, m["plan"])
        if d1 != m["class"] or d2 != m["class"] or o1.trace.hash != o2.trace.hash:
            rep.harness_error("mismatch %s did not reproduce identically (%s/%s, %s/%s)" % (key, d1, d2, o1.trace.hash, o2.trace.hash))
            continue
        keep, faults = explicit_plan(m["plan"], o1.trace)
        plan = m["plan"]
        nr = 0
        if faults:
            cand = "\n".join(keep + faults) + "\n"
            if rerun(bdir, casespec, cand)[0] == m["class"]:
                faults, nr = ddmin(faults, lambda fs: rerun(bdir, casespec, "\n".join(keep + fs) + "\n")[0] == m["class"], 120)
                plan = "\n".join(keep + faults) + "\n"
        spec = {"property": PROP, "case": casespec, "plan": plan, "class": m["class"], "original_plan": m["plan"],
                "minimise_runs": nr, "stderr": m["stderr"], "argv": r["case"]["argv"], "tool": r["case"]["tool"]}
        path = rep.write_replay("c12", spec)
        rep.violation(key, "%s %s: %s under injected short/EINTR I/O; minimal plan:\n    %s" % (
            r["case"]["tool"], " ".join(r["case"]["argv"]), m["class"], plan.strip().replace("\n", "\n    ")), path)
    kinds = sorted(set(k.split(":")[1] for k in fired))
    cov = {
        "evaluations": runs + len(results),
        "distinct_nontrivial": sum(r["hashes"] for r in results),
        "rule": "one evaluation = one tool run under one seeded plan (plus one reference run per pipeline); distinct = distinct trace "
                "hashes per pipeline among runs in which at least one short count / EINTR / chunk actually fired",
        "samples": [dict(r["case"], reference=r["ref"], example_plan=gen_plan(rng(r["case"]["seed"], "plan", r["case"]["kind"], 0)))
                    for r in results[:4] if r["case"]],
        "pipelines": len(results),
        "faults_fired": fired,
        "fault_kinds_fired": kinds,
        "scheduler_decisions": sum(r["decisions"] for r in results),
        "components_real": ["gensquashfs, tar2sqfs, sqfs2tar, rdsquashfs (all sources from the working tree)", "codec libraries", "tmpfs"],
        "components_simulated": ["read/write/pread/pwrite outcomes (short, EINTR), stdin chunking, thread schedule, readdir order"],
    }
    for call in ("read", "write", "pread", "pwrite"):
        if not any(k.startswith(call + ":") for k in fired):
            rep.harness_error("insufficient reach: no fault fired on %s" % call)
    return rep.finish(cov, ["only read/write/pread/pwrite are perturbed; a call never returns 0 for a non-zero request",
                            "EINTR is returned at most 3 times in a row per descriptor",
                            "stdio diagnostics (printf to stdout by rdsquashfs -l/-d/-s/-x) go through libc, which is not perturbed"])


if __name__ == "__main__":
    sys.exit(main())
