"""C05 — reading an untrusted image never corrupts memory, hangs or aborts.

tool-sim (sanitized build): valid images are produced by the simulated gensquashfs in *store* mode
(the compressor proxy declines every block, so all metadata is stored uncompressed and the parsers -
not the decompressors - see the damage) and in real-compressor mode. The independent decoder's field
map (every superblock field, table pointer, inode field, block size word, directory header / entry,
index entry, table entry, xattr size) aims stored-byte faults: boundary values, off-by-one, high
bits, random; 1..3 faults per image, truncation, transient variants (the 2nd read of a byte differs).
Readers: rdsquashfs -l -s -c -x -d -u, sqfs2tar, sqfsdiff. Oracle: exit status 0/1/2, no signal, no
sanitizer report, CPU bound respected.
"""
import os, sys, json, re, struct, shutil
from common import *
import vfbuild, pipelines, treegen, sqfsdec

PROP = "C05"


def make_image(bdir, r, cd, store):
    ents = treegen.gen_tree(r, bs=4096, nfiles=r.choice([4, 7]), ndirs=r.choice([1, 3]), hostile=False, specials=True,
                            xattrs=r.random() < 0.6, hardlinks=r.random() < 0.5, big=r.random() < 0.3, bigdir=r.choice([0, 0, 40, 300]))
    ents = [e for e in ents if treegen.packfile_representable(e)]
    treegen.emit_packfile(ents, cd)
    treegen.emit_xattr_file(ents, cd)
    comp = r.choice(["gzip", "xz", "lz4", "zstd", "lzma"])
    argv = ["-c", comp, "-b", "4096", "-q", "-j", "1", "-F", "pack.txt", "-D", ".", "-A", "xattr.txt"]
    if r.random() < 0.5:
        argv.append("-e")
    rr = run_sim(os.path.join(bdir, "plain", "sim-gensquashfs"), argv + ["clean.sqfs"], cwd=cd,
                 plan="seed 1\nsched rr\n" + ("store 1\n" if store else ""))
    if rr.rc != 0:
        raise RuntimeError("image build failed: %s" % rr.stderr[-200:])
    return ents, comp


def field_values(r, length, old):
    mx = (1 << (8 * length)) - 1
    cands = [0, 1, mx, mx - 1, old + 1, max(0, old - 1), old ^ (1 << r.randrange(8 * length)), 1 << r.randrange(8 * length),
             r.randrange(mx + 1), old | (1 << (8 * length - 1)), old * 2 & mx, 0x7FFFFFFF & mx, (old + 8192) & mx, (old + 0x10000) & mx,
             # just below the maximum: "offset + length" sums wrap around in the field's own width
             mx - r.choice([1, 2, 7, 16, 100, 255, 4095, 8191]), mx - r.choice([1, 2, 7, 16, 100, 255, 4095, 8191]), (mx + 1 - old) & mx, mx - old]
    v = r.choice(cands)
    return v & mx


def mutate_loop(r, data, fields, img):
    """two coordinated edits: a directory entry is made to refer to the directory that contains it (or to the root), and its type
    word is rewritten independently - the reference and the type word are different on-disk fields, readers may trust either"""
    nodes = {n.ino: n for n in img.inodes_by_ref.values()}
    byname = {f[0]: f for f in fields}
    cands = []
    for name, off, ln in fields:
        m = re.match(r"dir\[(\d+)\]\.ent(\d+)\.offset$", name)
        if m and int(m.group(1)) in nodes and ("dir[%s].hdr1.start" % m.group(1)) not in byname and ("dir[%s].hdr0.start" % m.group(1)) in byname:
            cands.append((int(m.group(1)), int(m.group(2))))
    if not cands:
        return None, None
    ino, k = r.choice(cands)
    owner = nodes[ino]
    root = img.inodes_by_ref.get(img.sb["root"], owner)
    target = r.choice([owner, owner, root])
    b = bytearray(data)
    desc = []
    _, ho, hl = byname["dir[%d].hdr0.start" % ino]
    b[ho:ho + 4] = (target.ref >> 16).to_bytes(4, "little")
    _, eo, el = byname["dir[%d].ent%d.offset" % (ino, k)]
    b[eo:eo + 2] = (target.ref & 0xFFFF).to_bytes(2, "little")
    desc.append("dir[%d].ent%d -> inode reference %#x (%s)" % (ino, k, target.ref, "the directory itself" if target is owner else "the root"))
    _, to, tl = byname["dir[%d].ent%d.type" % (ino, k)]
    newt = r.choice([1, 2, 2, 3, 7, 8, 9, 0])
    old = int.from_bytes(b[to:to + 2], "little")
    b[to:to + 2] = newt.to_bytes(2, "little")
    desc.append("dir[%d].ent%d.type %d -> %d" % (ino, k, old, newt))
    return bytes(b), desc


def mutate(r, data, fields, img=None):
    """returns (bytes, description list, persistent byte faults [(off, value)])"""
    if img is not None and r.random() < 0.08:
        bad, desc = mutate_loop(r, data, fields, img)
        if bad is not None:
            return bad, desc
    b = bytearray(data)
    desc = []
    kind = r.random()
    if kind < 0.08:
        n = r.choice([95, 96, 97, len(b) // 2, len(b) - 1, r.randrange(1, len(b))])
        desc.append("truncate to %d bytes" % n)
        return bytes(b[:n]), desc
    if kind < 0.2:
        for _ in range(r.choice([1, 2, 8])):
            p = r.randrange(len(b))
            b[p] ^= 1 << r.randrange(8)
            desc.append("flip @%d" % p)
        return bytes(b), desc
    byclass = {}
    for f in fields:
        byclass.setdefault(re.sub(r"\d+", "N", f[0]), []).append(f)
    classes = sorted(byclass)
    for _ in range(r.choice([1, 1, 2, 3])):
        # half of the time every *kind* of field is equally likely (a big directory does not drown the seven fragment offsets)
        name, off, ln = r.choice(byclass[r.choice(classes)]) if r.random() < 0.5 else r.choice(fields)
        if ln in (1, 2, 4, 8):
            old = int.from_bytes(b[off:off + ln], "little")
            new = field_values(r, ln, old)
            b[off:off + ln] = new.to_bytes(ln, "little")
            desc.append("%s @%d: %#x -> %#x" % (name, off, old, new))
        else:
            p = off + r.randrange(ln)
            old = b[p]
            b[p] = r.choice([0, ord("/"), ord("."), 0xFF, old ^ 0x20])
            desc.append("%s byte @%d: %#x -> %#x" % (name, p, old, b[p]))
    return bytes(b), desc


PAYLOAD_BASE = 1000000      # mutation indices from here on are payload header edits (kept apart so the other streams stay what they were)


def mutate_payload(r, data, img):
    """the first bytes of a *compressed* block's payload are the codec's own header (lzma: properties, uncompressed size; xz: stream
    flags and block header; zstd / lz4: frame and block descriptors): write size-like values there - the stream behind stays intact"""
    pf = [f for f in img.payload_fields if f[2] >= 13 and f[1] + f[2] <= len(data)]
    if not pf:
        return None, None
    meta = [f for f in pf if f[0] == "meta"]
    what, off, ln = r.choice(meta) if meta and r.random() < 0.7 else r.choice(pf)
    o = r.choice([5, 5, 5, 9, 0, 1, 4, 8]) if img.comp == 2 else r.choice([0, 1, 2, 4, 5, 6, 8, 9])
    width = r.choice([4, 4, 2, 1])
    new = r.choice([8200, 8193, 0x2001, 0x10000, 0x1000000, 0x7FFFFFFF, 0, 0xFFFFFFFF, 4097, 0x100000]) & ((1 << (8 * width)) - 1)
    b = bytearray(data)
    old = int.from_bytes(b[off + o:off + o + width], "little")
    b[off + o:off + o + width] = new.to_bytes(width, "little")
    return bytes(b), ["%s block payload @%d: u%d at +%d %#x -> %#x" % (what, off, 8 * width, o, old, new)]


NV = 8


def sweep_value(k, ln, old, r):
    mx = (1 << (8 * ln)) - 1
    return [0, mx, mx - 1, mx - r.choice([2, 7, 16, 100]), (old + 1) & mx, old | (1 << (8 * ln - 1)), (mx + 1 - old) & mx, (old * 2 + 1) & mx][k] & mx


def mutate_sweep(r, data, fields, i):
    """systematic part: every KIND of numeric field (names with the indices removed) x NV boundary values, one random instance each"""
    byclass = {}
    for f in fields:
        if f[2] in (1, 2, 4, 8):
            byclass.setdefault(re.sub(r"\d+", "N", f[0]), []).append(f)
    classes = sorted(byclass)
    if i >= len(classes) * NV:
        return None, None
    name, off, ln = r.choice(byclass[classes[i // NV]])
    b = bytearray(data)
    old = int.from_bytes(b[off:off + ln], "little")
    new = sweep_value(i % NV, ln, old, r)
    b[off:off + ln] = new.to_bytes(ln, "little")
    return bytes(b), ["%s @%d: %#x -> %#x" % (name, off, old, new)]


def readers(paths, r):
    f = r.choice(paths["file"]) if paths["file"] else "nonexistent"
    anyp = r.choice(paths["any"]) if paths["any"] else "/"
    d = r.choice(paths["dir"]) if paths["dir"] else "/"
    return [
        ("rdsquashfs", ["-l", d, "m.sqfs"], "list"),
        ("rdsquashfs", ["-s", anyp, "m.sqfs"], "stat"),
        ("rdsquashfs", ["-c", f, "m.sqfs"], "cat"),
        ("rdsquashfs", ["-x", anyp, "m.sqfs"], "xattr"),
        ("rdsquashfs", ["-d", "m.sqfs"], "describe"),
        ("rdsquashfs", ["-q", "-u", "/", "-p", "unp", "-X", "-T", "m.sqfs"], "unpack"),
        ("sqfs2tar", ["m.sqfs"], "sqfs2tar"),
        ("sqfsdiff", ["-a", "clean.sqfs", "-b", "m.sqfs"], "sqfsdiff"),
    ]


def verdict_clause(o):
    if o.timeout:
        return "hang"
    if o.sig is not None:
        return "crash:signal%d" % o.sig
    if o.rc == 77:
        m = re.search(rb"(AddressSanitizer: [\w-]+|runtime error: [\w ]+)", o.stderr)
        f = re.search(rb"#\d+ 0x[0-9a-f]+ in (\w+) /repo", o.stderr)
        return "sanitizer:%s:%s" % ((m.group(1).decode() if m else "?").replace(" ", "-")[:40], f.group(1).decode() if f else "?")
    if o.rc not in (0, 1, 2):
        return "exit:%s" % o.rc
    return None


def work(a):
    bdir, seed, nmut = a[:3]
    sweep = len(a) > 3 and a[3] == "sweep"
    res = {"runs": 0, "viol": [], "err": None, "case": {"seed": seed, "sweep": sweep}, "accepted": 0, "rejected": 0, "fields": 0, "transient": 0,
           "by_reader": {}, "delivered": 0}
    r = rng(seed, "c05")
    try:
        with Scratch("c05") as cd:
            store = sweep or r.random() < 0.7
            ents, comp = make_image(bdir, r, cd, store)
            data = open(os.path.join(cd, "clean.sqfs"), "rb").read()
            img = sqfsdec.decode(data)
            if not img.ok():
                res["err"] = "decoder rejects the clean image: %s" % img.errors[0]
                return res
            fields = [f for f in img.fields if f[1] + f[2] <= len(data)]
            res["fields"] = len(fields)
            res["case"].update(store=store, comp=comp, bytes=len(data), fields=len(fields))
            paths = {"file": [os.fsdecode(p) for p, n in img.tree.items() if n.type == sqfsdec.T_FILE and p],
                     "dir": ["/"] + [os.fsdecode(p) for p, n in img.tree.items() if n.type == sqfsdec.T_DIR and p],
                     "any": [os.fsdecode(p) for p in img.tree if p]}
            idx = list(range(min(nmut, PAYLOAD_BASE)))
            if nmut > PAYLOAD_BASE:
                idx = [nmut - 1]
            elif not sweep:
                idx += [PAYLOAD_BASE + k for k in range(6)]
            for i in idx:
                mr = rng(seed, "mut", i)
                if i >= PAYLOAD_BASE:
                    bad, desc = mutate_payload(mr, data, img)
                    if bad is None:
                        break
                elif sweep:
                    bad, desc = mutate_sweep(mr, data, fields, i)
                    if bad is None:
                        break
                else:
                    bad, desc = mutate(mr, data, fields, img)
                transient = not sweep and mr.random() < 0.15 and len(bad) == len(data)
                plan = "seed 1\nsched rr\n"
                if transient:
                    # deliver the clean bytes first, the damaged value only on a later read of the same byte
                    diffs = [k for k in range(len(data)) if data[k] != bad[k]][:16]
                    with open(os.path.join(cd, "m.sqfs"), "wb") as f:
                        f.write(data)
                    for k in diffs:
                        plan += "corrupt img %d set %d once %d\n" % (k, bad[k], mr.choice([2, 2, 3]))
                    plan = "watch img m.sqfs\n" + plan
                    res["transient"] += 1
                else:
                    with open(os.path.join(cd, "m.sqfs"), "wb") as f:
                        f.write(bad)
                rl = readers(paths, mr)
                if sweep:
                    rl = [x for x in rl if x[2] in ("unpack", "sqfs2tar", "describe")]      # between them they read every structure
                for tool, argv, rname in rl:
                    shutil.rmtree(os.path.join(cd, "unp"), ignore_errors=True)
                    os.makedirs(os.path.join(cd, "unp"))
                    o = run_sim(os.path.join(bdir, "asan", "sim-" + tool), argv, plan=plan, cwd=cd, timeout=60, cpu=10,
                                stdout_path=os.path.join(cd, ".stdout"))
                    res["runs"] += 1
                    res["by_reader"][rname] = res["by_reader"].get(rname, 0) + 1
                    for l in o.trace.lines:
                        if l.startswith("FC corrupt delivered"):
                            res["delivered"] += int(l.split()[3])
                    if o.rc == 0:
                        res["accepted"] += 1
                    else:
                        res["rejected"] += 1
                    cl = verdict_clause(o)
                    if cl:
                        res["viol"].append({"clause": cl, "reader": rname, "argv": [tool] + argv, "desc": desc, "i": i, "transient": transient,
                                            "stderr": o.stderr[-1200:].decode(errors="replace"), "plan": plan})
    except Exception as e:
        import traceback
        res["err"] = "%s: %s %s" % (type(e).__name__, e, traceback.format_exc()[-300:])
    return res


def replay(spec, bdir=None):
    bdir = bdir or vfbuild.build()
    w = work((bdir, spec["seed"], spec["i"] + 1) + (("sweep",) if spec.get("image", {}).get("sweep") else ()))
    found = [v for v in w["viol"] if v["i"] == spec["i"] and v["reader"] == spec["reader"] and v["clause"] == spec["clause"]]
    print("replay: %s %s -> %s" % (spec["reader"], spec["clause"], "REPRODUCED\n" + found[0]["stderr"][-600:] if found else "not reproduced"))
    return 1 if found else 0


def main():
    t = tier()
    seed = master_seed()
    rep = Report(PROP, "exploration")
    bdir = vfbuild.build()
    nimg, nmut = (48, 22) if t == "quick" else (1200, 40)
    items = [(bdir, derive(seed, "c05", i) >> 1, nmut) for i in range(nimg)]
    items += [(bdir, derive(seed, "c05sweep", i) >> 1, 100000, "sweep") for i in range(4 if t == "quick" else 200)]
    results = list(pmap_unordered(work, items))
    for r in results:
        if r["err"]:
            rep.harness_error(r["err"])
    seen = {}
    for r in results:
        for v in r["viol"]:
            seen.setdefault("%s:%s" % (v["reader"], v["clause"]), (r, v))
    for key, (r, v) in sorted(seen.items()):
        w = work((bdir, r["case"]["seed"], v["i"] + 1) + (("sweep",) if r["case"].get("sweep") else ()))
        if not [x for x in w["viol"] if x["i"] == v["i"] and x["reader"] == v["reader"] and x["clause"] == v["clause"]]:
            rep.harness_error("violation %s did not reproduce" % key)
            continue
        spec = {"property": PROP, "seed": r["case"]["seed"], "i": v["i"], "reader": v["reader"], "clause": v["clause"], "argv": v["argv"],
                "faults": v["desc"], "transient": v["transient"], "stderr": v["stderr"], "image": r["case"]}
        rep.violation(key, "%s on an image with %s: %s" % (" ".join(v["argv"]), "; ".join(v["desc"])[:200], v["clause"]), rep.write_replay("c05", spec))
    by = {}
    for r in results:
        for k, n in r["by_reader"].items():
            by[k] = by.get(k, 0) + n
    cov = {
        "evaluations": sum(r["runs"] for r in results),
        "distinct_nontrivial": sum(r["rejected"] for r in results),
        "rule": "one evaluation = one reader run (sanitized) on one damaged image; damaged images are distinct by seed; non-trivial = the reader "
                "noticed the damage (exit != 0) - runs that still exit 0 read bytes the damage did not reach or that are not checked",
        "samples": [r["case"] for r in results[:4]],
        "images": len(results),
        "field_map_entries_total": sum(r["fields"] for r in results),
        "faults_fired": {"damaged_images": sum(r["runs"] for r in results if not r["case"].get("sweep")) // 8 + sum(r["runs"] for r in results if r["case"].get("sweep")) // 3,
                         "systematic_field_kind_x_boundary_value_images": sum(r["runs"] for r in results if r["case"].get("sweep")) // 3, "transient_variants": sum(r["transient"] for r in results),
                         "transient_bytes_delivered_corrupted": sum(r["delivered"] for r in results)},
        "runs_by_reader": by,
        "readers_exit0": sum(r["accepted"] for r in results),
        "sanitizer": "AddressSanitizer + UBSan subset",
        "components_real": ["rdsquashfs, sqfs2tar, sqfsdiff, libsquashfs readers, decompressors"],
        "components_simulated": ["stored bytes of the image (persistent rewrites on tmpfs, transient ones in the pread/read seam)"],
    }
    return rep.finish(cov, ["sampling aimed by the on-disk structure, not coverage-guided fuzzing; consistent multi-field forgeries are out of reach",
                            "exit statuses 0, 1 and 2 (sqfsdiff: images differ) count as orderly"])


if __name__ == "__main__":
    sys.exit(main())
