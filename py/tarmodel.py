"""Archive model + tar emitter written from the format descriptions (independent of lib/tar):
v7, ustar (prefix split), GNU (long name/link records, base-256 numbers, old sparse), PAX (path,
linkpath, size, uid, gid, mtime, SCHILY / LIBARCHIVE xattrs, GNU sparse 0.0 / 0.1 / 1.0).
Also: expected image tree for tar2sqfs, and a parser-independent entry walker (for truncation points).
"""
import os, io, base64, urllib.parse, random

BLOCK = 512


class TEntry:
    __slots__ = ("name", "type", "mode", "uid", "gid", "mtime", "target", "dev", "content", "segments", "realsize", "xattrs", "sparse_fmt")

    def __init__(self, name, type, mode=0o644, uid=0, gid=0, mtime=0, target=None, dev=None, content=b"", xattrs=None,
                 segments=None, realsize=None, sparse_fmt=None):
        self.name, self.type, self.mode, self.uid, self.gid, self.mtime = name, type, mode, uid, gid, mtime
        self.target, self.dev, self.content, self.xattrs = target, dev, content, xattrs or {}
        self.segments, self.realsize, self.sparse_fmt = segments, realsize, sparse_fmt

    def expanded(self):
        """file content with holes expanded"""
        if self.segments is None:
            return self.content
        out = bytearray(self.realsize)
        pos = 0
        for off, ln in self.segments:
            out[off:off + ln] = self.content[pos:pos + ln]
            pos += ln
        return bytes(out)

    def brief(self):
        return {"name": self.name.decode("latin1"), "type": self.type, "size": len(self.content), "mtime": self.mtime, "uid": self.uid,
                "sparse": self.sparse_fmt, "xattrs": len(self.xattrs)}


TYPEFLAG = {"file": b"0", "hlink": b"1", "slink": b"2", "chr": b"3", "blk": b"4", "dir": b"5", "fifo": b"6"}


def _octal(v, width):
    s = b"%0*o" % (width - 1, v)
    if len(s) > width - 1:
        raise OverflowError
    return s + b"\0"


def _num(v, width, allow_base256):
    if v >= 0:
        try:
            return _octal(v, width)
        except OverflowError:
            pass
    if not allow_base256:
        raise OverflowError("number %d does not fit" % v)
    if v >= 0:
        b = v.to_bytes(width - 1, "big")
        return b"\x80" + b
    b = (v + (1 << (8 * (width - 1)))).to_bytes(width - 1, "big")
    return b"\xff" + b


def _checksum(hdr):
    h = bytearray(hdr)
    h[148:156] = b" " * 8
    s = sum(h)
    h[148:156] = b"%06o\0 " % s
    return bytes(h)


def _header(name, mode, uid, gid, size, mtime, typeflag, linkname=b"", magic=b"ustar\0" b"00", dev=None, prefix=b"", base256=False,
            sparse_tail=None):
    h = bytearray(BLOCK)
    h[0:len(name)] = name
    h[100:108] = _octal(mode & 0o7777, 8)
    h[108:116] = _num(uid, 8, base256)
    h[116:124] = _num(gid, 8, base256)
    h[124:136] = _num(size, 12, base256)
    h[136:148] = _num(mtime, 12, base256)
    h[156:157] = typeflag
    h[157:157 + len(linkname)] = linkname
    if magic:
        h[257:257 + len(magic)] = magic
    if dev is not None:
        h[329:337] = _octal(dev[0], 8)
        h[337:345] = _octal(dev[1], 8)
    elif magic:
        h[329:337] = _octal(0, 8)
        h[337:345] = _octal(0, 8)
    h[345:345 + len(prefix)] = prefix
    if sparse_tail is not None:
        h[386:386 + len(sparse_tail)] = sparse_tail
    return _checksum(h)


def _pad(data):
    return data + b"\0" * ((BLOCK - len(data) % BLOCK) % BLOCK)


def _pax_record(key, value):
    body = b" " + key + b"=" + value + b"\n"
    n = len(body) + 1
    while len(str(n)) + len(body) != n:
        n = len(str(n)) + len(body)
    return str(n).encode() + body


def split_ustar(name):
    """returns (prefix, name) or None"""
    if len(name) <= 100:
        return b"", name
    for i in range(len(name) - 1, 0, -1):
        if name[i:i + 1] == b"/" and i <= 155 and len(name) - i - 1 <= 100 and len(name) - i - 1 > 0:
            return name[:i], name[i + 1:]
    return None


class Unrepresentable(Exception):
    pass


def emit_entry(e, dialect, r):
    """bytes of one archive member in the given dialect; raises Unrepresentable"""
    name = e.name
    if e.type == "dir" and not name.endswith(b"/"):
        name += b"/"
    tf = TYPEFLAG[e.type]
    link = e.target or b""
    size = len(e.content) if e.type == "file" else 0
    out = b""
    if dialect == "v7":
        if len(name) > 100 or len(link) > 100 or e.type in ("chr", "blk", "fifo") or e.xattrs or e.segments is not None:
            raise Unrepresentable
        try:
            h = _header(name, e.mode, e.uid, e.gid, size, e.mtime, tf if e.type != "file" else b"\0", link, magic=b"", dev=None)
        except OverflowError:
            raise Unrepresentable
        return h + _pad(e.content if e.type == "file" else b"")
    if dialect == "ustar":
        sp = split_ustar(name)
        if sp is None or len(link) > 100 or e.xattrs or e.segments is not None:
            raise Unrepresentable
        try:
            h = _header(sp[1], e.mode, e.uid, e.gid, size, e.mtime, tf, link, dev=e.dev, prefix=sp[0])
        except OverflowError:
            raise Unrepresentable
        return h + _pad(e.content if e.type == "file" else b"")
    if dialect == "gnu":
        if e.xattrs:
            raise Unrepresentable
        magic = b"ustar  \0"
        if len(link) > 100:
            out += _header(b"././@LongLink", 0o644, 0, 0, len(link) + 1, 0, b"K", magic=magic) + _pad(link + b"\0")
        if len(name) > 100:
            out += _header(b"././@LongLink", 0o644, 0, 0, len(name) + 1, 0, b"L", magic=magic) + _pad(name + b"\0")
        if e.segments is not None:
            if e.sparse_fmt != "gnu-old":
                raise Unrepresentable
            segs = list(e.segments)
            if not segs or segs[-1][0] + segs[-1][1] != e.realsize:
                segs.append((e.realsize, 0))
            tail = bytearray(126)
            first, rest = segs[:4], segs[4:]
            for i, (o, n) in enumerate(first):
                tail[i * 24:i * 24 + 12] = _num(o, 12, True)
                tail[i * 24 + 12:i * 24 + 24] = _num(n, 12, True)
            tail[96] = 1 if rest else 0
            tail[97:109] = _num(e.realsize, 12, True)
            out += _header(name[:100], e.mode, e.uid, e.gid, size, e.mtime, b"S", magic=magic, base256=True, sparse_tail=bytes(tail))
            while rest:
                blk = bytearray(BLOCK)
                chunk, rest = rest[:21], rest[21:]
                for i, (o, n) in enumerate(chunk):
                    blk[i * 24:i * 24 + 12] = _num(o, 12, True)
                    blk[i * 24 + 12:i * 24 + 24] = _num(n, 12, True)
                blk[504] = 1 if rest else 0
                out += bytes(blk)
            return out + _pad(e.content)
        out += _header(name[:100], e.mode, e.uid, e.gid, size, e.mtime, tf, link[:100], magic=magic, dev=e.dev, base256=True)
        return out + _pad(e.content if e.type == "file" else b"")
    if dialect == "pax":
        recs = b""
        hname, hlink = name, link
        if len(name) > 100 or r.random() < 0.2:
            recs += _pax_record(b"path", name)
            hname = name[:100]
        if len(link) > 100 or (link and r.random() < 0.2):
            recs += _pax_record(b"linkpath", link)
            hlink = link[:100]
        uid, gid, mtime, hsize = e.uid, e.gid, e.mtime, size
        if uid > 0o7777777:
            recs += _pax_record(b"uid", str(uid).encode())
            uid = 0
        if gid > 0o7777777:
            recs += _pax_record(b"gid", str(gid).encode())
            gid = 0
        if mtime < 0 or mtime > 0o77777777777:
            recs += _pax_record(b"mtime", str(mtime).encode())
            mtime = 0
        elif r.random() < 0.2:
            recs += _pax_record(b"mtime", ("%d.%09d" % (mtime, r.randrange(1, 999999999))).encode())
        for k, v in sorted(e.xattrs.items()):
            if r.random() < 0.5:
                recs += _pax_record(b"SCHILY.xattr." + k, v)
            else:
                recs += _pax_record(b"LIBARCHIVE.xattr." + urllib.parse.quote(k, safe="").encode(), base64.b64encode(v).rstrip(b"="))
        data = e.content if e.type == "file" else b""
        if e.segments is not None:
            segs = list(e.segments)
            if e.sparse_fmt == "pax-0.0":
                recs += _pax_record(b"GNU.sparse.size", str(e.realsize).encode())
                recs += _pax_record(b"GNU.sparse.numblocks", str(len(segs)).encode())
                for o, n in segs:
                    recs += _pax_record(b"GNU.sparse.offset", str(o).encode())
                    recs += _pax_record(b"GNU.sparse.numbytes", str(n).encode())
            elif e.sparse_fmt == "pax-0.1":
                recs += _pax_record(b"GNU.sparse.size", str(e.realsize).encode())
                recs += _pax_record(b"GNU.sparse.numblocks", str(len(segs)).encode())
                recs += _pax_record(b"GNU.sparse.map", b",".join(b"%d,%d" % (o, n) for o, n in segs))
            elif e.sparse_fmt == "pax-1.0":
                recs += _pax_record(b"GNU.sparse.major", b"1")
                recs += _pax_record(b"GNU.sparse.minor", b"0")
                recs += _pax_record(b"GNU.sparse.name", name)
                recs += _pax_record(b"GNU.sparse.realsize", str(e.realsize).encode())
                m = b"%d\n" % len(segs) + b"".join(b"%d\n%d\n" % (o, n) for o, n in segs)
                data = _pad(m) + data
                hname = (b"GNUSparseFile.0/" + os.path.basename(name))[:100]
            else:
                raise Unrepresentable
            hsize = len(data)
        if hsize > 0o77777777777:
            recs += _pax_record(b"size", str(hsize).encode())
        if recs:
            out += _header(b"PaxHeaders/" + os.path.basename(name.rstrip(b"/"))[:80], 0o644, 0, 0, len(recs), 0, b"x") + _pad(recs)
        out += _header(hname, e.mode, uid, gid, min(hsize, 0o77777777777), mtime, tf, hlink, dev=e.dev)
        return out + _pad(data)
    raise ValueError(dialect)


def emit_archive(entries, dialect, r, trailer_blocks=2):
    out = b""
    kept = []
    have = set()
    for e in entries:
        d = dialect
        if dialect == "mixed":
            d = r.choice(["ustar", "gnu", "pax"])
        if e.type == "hlink" and e.target not in have:
            continue        # its target could not be written in this dialect: a dangling link would make the archive invalid
        try:
            out += emit_entry(e, d, r)
            kept.append(e)
            have.add(e.name)
        except Unrepresentable:
            continue
    return out + b"\0" * (BLOCK * trailer_blocks), kept


# ------------------------------------------------------------------ generator
def gen_archive_model(r, nfiles=6, ndirs=2, hostile=False, xattrs=False, hardlinks=True, sparse=True, root_entry=None, bs=4096, big=False,
                      link_specials=False):
    import treegen
    ents = treegen.gen_tree(r, bs=bs, nfiles=nfiles, ndirs=ndirs, hostile=hostile, specials=True, xattrs=xattrs, hardlinks=hardlinks, big=big)
    out = []
    prefix = r.choice([b"", b"", b"./", b"/"])
    if root_entry or (root_entry is None and r.random() < 0.3):
        out.append(TEntry(b"./", "dir", mode=r.choice([0o755, 0o700, 0o1777]), uid=r.choice([0, 5]), gid=r.choice([0, 7]), mtime=r.choice([0, 99, 1500000000])))
    for e in ents:
        if b"\n" in e.path or e.type == treegen.SOCK:
            continue
        if e.type == treegen.DIR and not e.explicit:
            continue
        nm = prefix + e.path
        mt = e.mtime if e.mtime is not None else 0
        if r.random() < 0.15:
            mt = r.choice([-1, -1000000, (1 << 33) + 5, (1 << 40)])
        t = {treegen.DIR: "dir", treegen.FILE: "file", treegen.SLINK: "slink", treegen.LINK: "hlink", treegen.CHR: "chr", treegen.BLK: "blk",
             treegen.FIFO: "fifo"}[e.type]
        te = TEntry(nm, t, mode=e.mode if e.mode is not None else 0o755, uid=e.uid or 0, gid=e.gid or 0, mtime=mt,
                    target=(prefix + e.target if e.type == treegen.LINK else e.target), dev=e.dev, content=e.content or b"",
                    xattrs={k: v for k, v in e.xattrs.items()})
        if t == "hlink":
            te.mode, te.uid, te.gid, te.mtime = 0o777, 0, 0, 0
        if t == "file" and sparse and r.random() < 0.25 and len(te.content) > 0:
            # turn the content into a sparse file: data segments with holes between / after them
            data = te.content
            many = len(data) >= 200 and r.random() < 0.3        # dozens of tiny regions: maps longer than one 512 byte block
            segs, pos, off = [], 0, r.choice([0, 0, 512, 4096, 100000])
            while pos < len(data):
                if many and len(segs) < 150 and len(data) - pos > 1:
                    ln = min(len(data) - pos - 1, r.choice([1, 2, 3, 9]))
                else:
                    ln = min(len(data) - pos, r.choice([1, 512, 1000, 4096, len(data)]))
                segs.append((off, ln))
                pos += ln
                off += ln + r.choice([0, 512, 4096, 1 << 20] if not many else [1, 7, 512, 100])
            te.segments = segs
            te.realsize = segs[-1][0] + segs[-1][1] + r.choice([0, 0, 4096, 12345])
            te.sparse_fmt = r.choice(["gnu-old", "pax-0.0", "pax-0.1", "pax-1.0"]) if not many else r.choice(["pax-1.0", "pax-1.0", "gnu-old", "pax-0.1"])
            if many and te.sparse_fmt == "pax-1.0":
                # shift all regions by a constant until the newline behind some number is the LAST byte of a 512 byte map block
                for shift in range(0, 3000):
                    m = b"%d\n" % len(segs) + b"".join(b"%d\n%d\n" % (o + shift, n) for o, n in segs)
                    if len(m) > 512 and m[511:512] == b"\n" and len(m) > 513:
                        te.segments = [(o + shift, n) for o, n in segs]
                        te.realsize += shift
                        break
        out.append(te)
    if link_specials:
        # second names for symlinks, fifos and device nodes (what GNU tar writes when such an inode has two names on disk)
        sp = [x for x in out if x.type in ("slink", "fifo", "chr", "blk") and len(x.name) < 90]
        for x in r.sample(sp, min(len(sp), r.choice([1, 2, 3]))):
            out.append(TEntry(x.name + b".2nd", "hlink", mode=0o777, uid=0, gid=0, mtime=0, target=x.name))
    if r.random() < 0.3:
        # a name component of exactly 100 bytes below a directory: fills the ustar name field completely (no terminator), prefix non-empty
        dirs = [x.name for x in out if x.type == "dir" and x.name not in (b"./", b"/") and len(x.name) < 100]
        if dirs:
            d = r.choice(dirs).rstrip(b"/")
            nm = bytes(r.choice(b"abcdefghijklmnopqrstuvwxyz0123456789") for _ in range(100))
            out.append(TEntry(d + b"/" + nm, "file", mode=0o644, uid=0, gid=0, mtime=77, content=b"exactly one hundred"))
    return out


def dialect_for(r, entries):
    return r.choice(["v7", "ustar", "gnu", "gnu", "pax", "pax", "mixed"])


# ------------------------------------------------------------------ expected tree
def canon(name):
    parts = [p for p in name.split(b"/") if p not in (b"", b".")]
    if b".." in parts:
        return None
    return b"/".join(parts)


XPREFIX = (b"user.", b"trusted.", b"security.")


def expected_tree(kept, no_xattr=False, keep_time=True, def_mtime=0):
    """{path: (type, mode, uid, gid, mtime, extra, xattrs)}, link groups — what tar2sqfs should store for these members"""
    out = {b"": ("dir", 0o755, 0, 0, def_mtime, None, ())}
    groups = []

    def clamp(m):
        if not keep_time:
            return def_mtime
        return max(0, min(m, 0xFFFFFFFF))

    for e in kept:
        p = canon(e.name)
        if p is None:
            continue
        xa = () if no_xattr else tuple(sorted((k, v) for k, v in e.xattrs.items() if k.startswith(XPREFIX)))
        if p == b"":
            if e.type == "dir":
                out[b""] = ("dir", e.mode, e.uid, e.gid, clamp(e.mtime), None, xa)
            continue
        q = p
        while q:
            q = os.path.dirname(q)
            if q and q not in out:
                out[q] = ("dir", 0o755, 0, 0, def_mtime, None, ())
        if e.type == "hlink":
            groups.append((p, canon(e.target)))
            continue
        extra = None
        if e.type == "file":
            extra = e.expanded()
        elif e.type == "slink":
            extra = e.target
        elif e.type in ("chr", "blk"):
            extra = (e.dev[0] << 8) | (e.dev[1] & 0xFF) | ((e.dev[1] & ~0xFF) << 12)
        out[p] = (e.type, e.mode & 0o7777, e.uid, e.gid, clamp(e.mtime), extra, xa)
    return out, groups


# ------------------------------------------------------------------ walker (independent of the repository)
def walk(data):
    """yields (offset_of_first_header_of_member, offset_after_member) for well formed archives we emitted"""
    off = 0
    start = None
    while off + BLOCK <= len(data):
        hdr = data[off:off + BLOCK]
        if hdr == b"\0" * BLOCK:
            break
        if start is None:
            start = off
        szf = hdr[124:136]
        size = int.from_bytes(szf[1:], "big") if szf[0] & 0x80 else int(szf.split(b"\0")[0].strip() or b"0", 8)
        typ = hdr[156:157]
        nxt = off + BLOCK
        if typ == b"S":
            ext = hdr[482]
            while ext:
                ext = data[nxt + 504]
                nxt += BLOCK
        nxt += (size + BLOCK - 1) // BLOCK * BLOCK
        if typ not in (b"x", b"g", b"L", b"K", b"X"):
            yield start, nxt
            start = None
        off = nxt
