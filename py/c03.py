"""C03 — every produced image satisfies the on-disk invariants other readers rely on.

Monitor over images: the independent validator (py/sqfsdec.py, written from doc/format.adoc) is
evaluated on every image the C01 exploration produces (gensquashfs, pack file and pack dir, all
compressors / block sizes / options / schedules / benign faults) plus tar2sqfs images.
"""
import os, sys, json, re
from common import *
import vfbuild, pipelines, sqfsdec, c01

PROP = "C03"


def tar_work(a):
    bdir, caseseed, prof = a
    res = {"images": 0, "invalid": [], "err": None, "case": None, "layouts": []}
    try:
        with Scratch("c03t") as s:
            cd = os.path.join(s, "case")
            case = pipelines.build_case(bdir, caseseed, "tar2sqfs", prof, cd)
            res["case"] = case.describe()
            o = pipelines.run_case(bdir, case, cd, "seed %d\nsched random\n" % (caseseed % 99991), "plain")
            if o.rc != 0:
                return res
            img = sqfsdec.decode(os.path.join(cd, "out.sqfs"))
            res["images"] = 1
            if not img.ok():
                res["invalid"].append({"clause": "undecodable", "detail": img.errors[0], "comp": case.desc["comp"]})
                return res
            sqfsdec.check_padding(img, 4096)
            for inv in img.invalid:
                res["invalid"].append({"clause": re.sub(r"\d+", "N", re.sub(r"b'.*?'", "_", inv))[:80], "detail": inv, "comp": case.desc["comp"]})
            res["layouts"].append(repr((case.desc["comp"], bool(img.frags), bool(img.xattr_sets), img.export is not None)))
    except Exception as e:
        res["err"] = "%s: %s" % (type(e).__name__, e)
    return res


def boundary_work(a):
    """lookup tables whose size is exactly k * 8192 bytes (and the neighbours): 2048 ids, 1024 inodes with -e, 512 fragment blocks"""
    bdir, name, n = a
    res = {"images": 0, "invalid": [], "err": None, "case": {"boundary": name, "n": n}, "layouts": []}
    try:
        with Scratch("c03b") as cd:
            lines = []
            argv = ["-c", "gzip", "-b", "4096", "-q", "-j", "2"]
            if name == "ids":
                # root has id 0; n distinct ids in total
                for i in range(1, n):
                    lines.append(b"pipe /p%05d 0644 %d %d" % (i, i, i))
            elif name == "export":
                argv.append("-e")
                for i in range(n - 1):      # + root
                    lines.append(b"pipe /p%05d 0644 0 0" % i)
            elif name == "xattrids":
                # n distinct xattr sets: the xattr id table (16 bytes per set) fills k metadata blocks exactly at n = 512 k
                with open(os.path.join(cd, "xattr.txt"), "wb") as f:
                    for i in range(n):
                        lines.append(b"pipe /p%05d 0644 0 0" % i)
                        f.write(b"# file: p%05d\nuser.n=0x%08x\n\n" % (i, i))
                argv += ["-A", "xattr.txt"]
            else:                           # fragment blocks: two incompressible, distinct 2048 byte tails per 4096 byte fragment block
                os.makedirs(os.path.join(cd, "in"))
                r = rng(n, "c03frag")
                for i in range(2 * n):
                    with open(os.path.join(cd, "in", "f%d" % i), "wb") as f:
                        f.write(i.to_bytes(4, "little") + r.randbytes(2044))
                    lines.append(b"file /f%05d 0644 0 0 in/f%d" % (i, i))
            with open(os.path.join(cd, "pack.txt"), "wb") as f:
                f.write(b"\n".join(lines) + b"\n")
            case = pipelines.Case(n, "gen-packfile", {})
            case.tool = "gensquashfs"
            case.out_image = "out.sqfs"
            case.outputs = {"image": "out.sqfs"}
            case.argv = argv + ["-F", "pack.txt", "-D", ".", "out.sqfs"]
            res["case"]["argv"] = case.argv
            o = pipelines.run_case(bdir, case, cd, "seed %d\nsched random\n" % (n + 1), "asan", timeout=300, cpu=120)
            if o.rc == 77 or o.sig is not None:
                m = re.search(rb"(AddressSanitizer: [\w-]+|runtime error: [\w ]+)", o.stderr)
                res["invalid"].append({"clause": "packer-crash:%s" % (m.group(1).decode().replace(" ", "-") if m else o.verdict), "detail": o.stderr[-600:].decode(errors="replace"), "comp": "gzip"})
                return res
            if o.rc != 0:
                res["invalid"].append({"clause": "packer-refused-boundary-input", "detail": o.verdict + " " + o.stderr[-200:].decode(errors="replace"), "comp": "gzip"})
                return res
            img = sqfsdec.decode(os.path.join(cd, "out.sqfs"), want_content=(name == "frags"))
            res["images"] = 1
            if not img.ok():
                res["invalid"].append({"clause": "undecodable", "detail": img.errors[0], "comp": "gzip"})
                return res
            got = {"ids": len(img.ids), "export": len(img.export or []), "frags": len(img.frags), "xattrids": len(img.xattr_sets)}[name]
            if got != n:
                res["err"] = "boundary case %s: wanted %d table entries, image has %d" % (name, n, got)
            for inv in img.invalid:
                res["invalid"].append({"clause": re.sub(r"\d+", "N", re.sub(r"b'.*?'", "_", inv))[:80], "detail": inv, "comp": "gzip"})
            res["layouts"].append(repr(("gzip", "boundary", name, n)))
    except Exception as e:
        res["err"] = "%s: %s" % (type(e).__name__, e)
    return res


def replay(spec, bdir=None):
    bdir = bdir or vfbuild.build()
    if spec.get("source") == "boundary":
        r = boundary_work((bdir, spec["case"]["boundary"], spec["case"]["n"]))
        found = [x for x in r["invalid"] if x["clause"] == spec["clause"]]
    elif spec.get("source") == "tar2sqfs":
        r = tar_work((bdir, spec["case"]["seed"], spec["case"]["profile"]))
        found = [x for x in r["invalid"] if x["clause"] == spec["clause"]]
    else:
        r = c01.work((bdir, spec["case"]["seed"], spec["case"]["kind"], spec["case"]["profile"], spec["i"] + 1))
        found = [x for x in r["invalid"] if x["i"] == spec["i"] and x["clause"] == spec["clause"]]
    print("replay: %s -> %s" % (spec["clause"], "REPRODUCED: " + found[0]["detail"] if found else "not reproduced"))
    return 1 if found else 0


def main():
    t = tier()
    seed = master_seed()
    rep = Report(PROP, "exploration")
    bdir = vfbuild.build()
    results, items = c01.explore(PROP, seed, t, bdir)
    tprofs = [{"nfiles": 8, "ndirs": 3, "xattrs": True, "hardlinks": True}, {"nfiles": 6, "ndirs": 2, "big": True}, {"nfiles": 3, "bigdir": 280}]
    titems = [(bdir, derive(seed, "c03tar", i) >> 1, tprofs[i % len(tprofs)]) for i in range(24 if t == "quick" else 400)]
    tres = pmap(tar_work, titems)
    bitems = [(bdir, name, k * per + d) for name, per in (("ids", 2048), ("export", 1024), ("frags", 512), ("xattrids", 512)) for k in ((1,) if t == "quick" else (1, 2, 3))
              for d in (-1, 0, 1)]
    bres = pmap(boundary_work, bitems)
    for r in bres:
        for v in r["invalid"]:
            v["boundary"] = True
    tres = tres + bres
    for r in results + tres:
        if r["err"]:
            rep.harness_error(r["err"])
    images = sum(r["images"] for r in results) + sum(r["images"] for r in tres)
    seen = {}
    for r in results:
        for v in r["invalid"]:
            key = "gensquashfs:%s:%s" % (v["cfg"]["comp"], v["clause"])
            seen.setdefault(key, ("gen", r, v))
    for r in tres:
        for v in r["invalid"]:
            seen.setdefault("%s:%s:%s" % ("boundary-" + r["case"]["boundary"] if v.get("boundary") else "tar2sqfs", v["comp"], v["clause"]), ("tar", r, v))
    for key, (src, r, v) in sorted(seen.items()):
        if src == "gen":
            casespec = {"seed": r["case"]["seed"], "kind": r["case"]["kind"], "profile": r["case"]["profile"]}
            again = c01.work((bdir, casespec["seed"], casespec["kind"], casespec["profile"], v["i"] + 1))
            if not [x for x in again["invalid"] if x["i"] == v["i"] and x["clause"] == v["clause"]]:
                rep.harness_error("invariant violation %s did not reproduce" % key)
                continue
            spec = {"property": PROP, "source": "gensquashfs", "case": casespec, "i": v["i"], "clause": v["clause"], "argv": v["cfg"]["argv"],
                    "plan": v["plan"], "detail": v["detail"]}
            text = "gensquashfs %s: %s" % (" ".join(v["cfg"]["argv"]), v["detail"])
        elif v.get("boundary"):
            spec = {"property": PROP, "source": "boundary", "case": r["case"], "clause": v["clause"], "detail": v["detail"]}
            text = "gensquashfs %s (%s table with %d entries): %s" % (" ".join(r["case"]["argv"]), r["case"]["boundary"], r["case"]["n"], v["detail"])
        else:
            casespec = {"seed": r["case"]["seed"], "profile": r["case"]["profile"]}
            spec = {"property": PROP, "source": "tar2sqfs", "case": casespec, "clause": v["clause"], "detail": v["detail"]}
            text = "tar2sqfs %s: %s" % (" ".join(r["case"]["argv"]), v["detail"])
        rep.violation(key, text[:400], rep.write_replay("c03", spec))
    layouts = set()
    for r in results + tres:
        layouts.update(r["layouts"])
    cov = {
        "evaluations": images,
        "distinct_nontrivial": images,
        "rule": "one evaluation = one image produced by a successful simulated packing run (own tree/config/schedule seed each), decoded and "
                "validated against the invariants of doc/format.adoc; every image is distinct by construction (different seed or configuration)",
        "samples": [dict(r["case"], images=r["images"]) for r in results[:3] if r["case"]],
        "images_from_gensquashfs": sum(r["images"] for r in results),
        "images_from_tar2sqfs": sum(r["images"] for r in tres),
        "layout_classes": sorted(layouts),
        "invariants": ["superblock vs layout (table order, bytes_used, flags vs tables, block_log, counts)", "padding to device block size",
                       "stored block size <= uncompressed size and <= limit (data, fragment, metadata)", "fragment refs in range",
                       "directory listings strictly sorted, <= 256 entries per header, index entries point at headers and are sorted",
                       "inode numbers exactly 1..N, link counts, parent numbers", "id/xattr/export references in bounds and correct"],
        "components_real": ["gensquashfs, tar2sqfs (writers)"],
        "components_simulated": ["schedules, benign I/O faults, store-mode compressor proxy (inherited from the C01 exploration)"],
    }
    return rep.finish(cov, ["the validator is written from doc/format.adoc and cross-checked against rdsquashfs on every C01 run"])


if __name__ == "__main__":
    sys.exit(main())
