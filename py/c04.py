"""C04 — tar <-> SquashFS conversion preserves the archive; byte-exact fixpoint.

tool-sim: archives come from the independent emitter (py/tarmodel.py: v7, ustar, GNU, PAX, sparse,
xattrs, hard links, base-256 / PAX numbers); tar2sqfs reads them through the stdin chunking / short
read seam with the scheduler active, sqfs2tar writes through the short-write seam.
 (1) decoded image tree == archive model's expected tree,
 (2) sqfs2tar output parsed by Python tarfile AND extracted by GNU tar == the image tree,
 (3) img1 -> tar1 -> img2 -> tar2 -> img3: tree(img2)==tree(img1), sha(img3)==sha(img2), sha(tar2)==sha(tar1).
"""
import os, sys, json, re, hashlib, tarfile, io, subprocess, stat, shutil
from common import *
import vfbuild, pipelines, tarmodel, sqfsdec, treegen

PROP = "C04"


def io_plan(r):
    lines = ["seed %d" % r.randrange(1, 1 << 62), "sched " + r.choice(["random", "rr", "pct 2 400"])]
    ch = r.choice([None, 1, 7, 511, 512, 513, 4095, 0])
    if ch is not None:
        lines.append("chunk stdin %d" % ch)
    for call in ("read", "write", "pread", "pwrite"):
        if r.random() < 0.5:
            lines.append("rate %s * short %d" % (call, r.choice([50, 400])))
        if r.random() < 0.25:
            lines.append("rate %s * eintr %d" % (call, r.choice([30, 120])))
    return "\n".join(lines) + "\n"


def parse_tar(path):
    """{name: (type, mode, uid, gid, mtime, extra, xattrs)} + hardlink pairs, via Python tarfile"""
    out, links = {}, []
    tf = tarfile.open(path, "r:")
    for ti in tf:
        name = os.fsencode(ti.name).rstrip(b"/") if isinstance(ti.name, str) else ti.name
        name = name.encode("utf-8", "surrogateescape") if isinstance(name, str) else name
        xa = []
        for k, v in ti.pax_headers.items():
            if k.startswith("SCHILY.xattr."):
                xa.append((k[13:].encode("utf-8", "surrogateescape"), v.encode("utf-8", "surrogateescape")))
        xa = tuple(sorted(xa))
        if ti.islnk():
            links.append((name, ti.linkname.encode("utf-8", "surrogateescape")))
            continue
        if ti.isdir():
            t, extra = "dir", None
        elif ti.isreg():
            t, extra = "file", tf.extractfile(ti).read()
        elif ti.issym():
            t, extra = "slink", ti.linkname.encode("utf-8", "surrogateescape")
        elif ti.ischr() or ti.isblk():
            t = "chr" if ti.ischr() else "blk"
            extra = (ti.devmajor << 8) | (ti.devminor & 0xFF) | ((ti.devminor & ~0xFF) << 12)
        elif ti.isfifo():
            t, extra = "fifo", None
        else:
            t, extra = "other:%r" % ti.type, None
        out[name] = (t, ti.mode & 0o7777, ti.uid, ti.gid, int(ti.mtime), extra, xa)
    return out, links


def image_as_tar_expectation(summary, no_xattr=False, no_links=False):
    """what sqfs2tar (no --root-becomes) should emit for this image: everything but the root and sockets"""
    exp, links = {}, []
    first = {}
    # sqfs2tar walks the tree depth first with sorted names: order by path *components* ('l/x' comes before 'l.y/a' although '.' < '/')
    for path in sorted(summary, key=lambda p: p.split(b"/")):
        if path == b"":
            continue
        t, mode, uid, gid, mtime, extra, xa, ino, nlink = summary[path]
        if t == "sock":
            continue
        if any(summary.get(path[:i], ("",))[0] == "sock" for i in range(len(path)) if path[i:i + 1] == b"/"):
            continue
        if not no_links and t != "dir" and ino in first:
            links.append((path, first[ino]))
            continue
        first.setdefault(ino, path)
        exp[path] = (t, mode, uid, gid, mtime, extra, () if no_xattr else tuple(xa))
    return exp, links


def resolved_view(members, links):
    """{name: attributes} with every hard link replaced by what it points to; None if a link does not point at an earlier member"""
    out = dict(members)
    for name, target in links:
        t = target.rstrip(b"/")
        if t not in out:
            return None, (name, target)
        out[name] = out[t]
    return out, None


def path_option_expectation(summary, subdirs, keep_as_dir, root_becomes, no_xattr):
    """what sqfs2tar --subdir/--keep-as-dir/--root-becomes should contain, hard links resolved (which name of a multiply linked
    inode is written as the file and which as links is the tool's business): names -> attributes"""
    full = {}
    for path in sorted(summary):
        t, mode, uid, gid, mtime, extra, xa, ino, nlink = summary[path]
        if path == b"" or t == "sock" or any(summary.get(path[:i], ("",))[0] == "sock" for i in range(len(path)) if path[i:i + 1] == b"/"):
            continue
        full[path] = (t, mode, uid, gid, mtime, extra, () if no_xattr else tuple(xa))
    sel = {}
    if not subdirs:
        sel = dict(full)
    elif len(subdirs) == 1 and not keep_as_dir:
        d = subdirs[0]
        for pth, v in full.items():
            if pth.startswith(d + b"/"):
                sel[pth[len(d) + 1:]] = v
    else:
        for pth, v in full.items():
            if any(pth == d or pth.startswith(d + b"/") or d.startswith(pth + b"/") for d in subdirs):
                sel[pth] = v
    if root_becomes is not None:
        t, mode, uid, gid, mtime, extra, xa, ino, nlink = summary[b""]
        out = {root_becomes: ("dir", mode, uid, gid, mtime, None, () if no_xattr else tuple(xa))}
        for pth, v in sel.items():
            out[root_becomes + b"/" + pth] = v
        sel = out
    return sel


def dict_diff(a, b, what):
    out = []
    for k in sorted(set(a) | set(b)):
        if k not in a:
            out.append("%s: unexpected %r" % (what, k))
        elif k not in b:
            out.append("%s: missing %r" % (what, k))
        elif a[k] != b[k]:
            names = ["type", "mode", "uid", "gid", "mtime", "data", "xattrs"]
            for i, nm in enumerate(names):
                if a[k][i] != b[k][i]:
                    x, y = a[k][i], b[k][i]
                    if isinstance(x, bytes) and len(x) > 30:
                        x = "%d bytes" % len(x)
                    if isinstance(y, bytes) and len(y) > 30:
                        y = "%d bytes" % len(y)
                    out.append("%s: %r %s expected %r got %r" % (what, k, nm, x, y))
    return out


def gnu_tar_extract(tarpath, dest):
    """extraction by GNU tar as root; returns snapshot or None"""
    os.makedirs(dest, exist_ok=True)
    p = subprocess.run(["tar", "--xattrs", "--xattrs-include=*", "-xpf", tarpath, "-C", dest, "--same-owner", "--numeric-owner"],
                       stdout=subprocess.PIPE, stderr=subprocess.PIPE)
    return p.returncode, p.stderr, pipelines.snapshot_dir(dest, True)


def work_from_gensquashfs(bdir, seed, prof):
    """'sqfs2tar on any image': images that did not come from a tar archive - made by gensquashfs from a pack file, with sockets (long
    names, xattrs, between other entries) that sqfs2tar has to skip without leaving a trace in the archive"""
    res = {"runs": 0, "viol": [], "err": None, "case": None, "stages": {}, "dialect": "gensquashfs-image", "unrep": 0, "conv": 0}
    r = rng(seed, "c04-gen")

    def V(clause, detail, stage):
        res["viol"].append({"clause": clause, "detail": detail[:500], "stage": stage})

    try:
        with Scratch("c04g") as s:
            ents = treegen.gen_tree(r, bs=4096, nfiles=prof.get("nfiles", 4), ndirs=prof.get("ndirs", 2), hostile=False, specials=True, xattrs=True, hardlinks=True)
            dirs = [b""] + [e.path + b"/" for e in ents if e.type == treegen.DIR]
            xa = {b"user.sock": b"attribute of a socket", b"user.long": b"x" * 300}
            for i in range(r.choice([1, 2, 3])):
                d = r.choice(dirs)
                nm = bytes([r.choice(b"amz")]) * r.choice([5, 99, 100, 101, 120, 200])
                ents.append(treegen.Entry(d + nm + b".sock", treegen.SOCK, mode=0o600, uid=r.choice([0, 5]), gid=0, mtime=5, xattrs=dict(xa) if r.random() < 0.6 else {}))
                ents.append(treegen.Entry(d + nm + b".sock.after", r.choice([treegen.FILE, treegen.FIFO]), mode=0o644, uid=0, gid=0, mtime=6,
                                          content=b"behind the socket %d" % i))
                ents[-1].content = ents[-1].content if ents[-1].type == treegen.FILE else None
            seen = set()
            ents = [e for e in ents if treegen.packfile_representable(e) and not (e.path in seen or seen.add(e.path))]
            treegen.emit_packfile(ents, s)
            treegen.emit_xattr_file(ents, s)
            res["case"] = {"seed": seed, "profile": prof, "dialect": "gensquashfs-image", "members": [e.brief() for e in ents[:6] if e.mode is not None], "n": len(ents)}
            case = pipelines.Case(seed, "gen-packfile")
            case.tool = "gensquashfs"
            case.out_image = "img1.sqfs"
            case.outputs = {"image": "img1.sqfs"}
            case.argv = ["-c", r.choice(["gzip", "xz", "lz4", "zstd"]), "-b", "4096", "-q", "-F", "pack.txt", "-D", ".", "-A", "xattr.txt", "img1.sqfs"]
            o = pipelines.run_case(bdir, case, s, "seed 1\nsched rr\n", "plain", timeout=180, cpu=60)
            res["conv"] += 1
            if o.rc != 0:
                res["err"] = "gensquashfs refused the pack file: %s" % o.stderr[-200:]
                return res
            img = sqfsdec.decode(os.path.join(s, "img1.sqfs"))
            if not img.ok():
                res["err"] = "image undecodable: %s" % img.errors[0]
                return res
            summ1 = sqfsdec.tree_summary(img)
            res["sockets"] = sum(1 for v in summ1.values() if v[0] == "sock")
            for k in range(2):
                c2 = pipelines.Case(seed, "sqfs2tar")
                c2.tool = "sqfs2tar"
                c2.outputs = {"stdout": None}
                no_x2 = k == 1 and r.random() < 0.5
                no_l2 = k == 1 and r.random() < 0.5
                c2.argv = (["-X"] if no_x2 else []) + (["-L"] if no_l2 else []) + ["img1.sqfs"]
                o2 = pipelines.run_case(bdir, c2, s, io_plan(r), "asan" if k else "plain", timeout=180, cpu=60)
                res["conv"] += 1
                if o2.rc != 0:
                    V("sqfs2tar-failed", "%s: %s" % (o2.verdict, o2.stderr[-300:].decode(errors="replace")), 2)
                    return res
                shutil.copyfile(os.path.join(s, ".stdout"), os.path.join(s, "tar1.tar"))
                texp, tlinks = image_as_tar_expectation(summ1, no_xattr=no_x2, no_links=no_l2)
                try:
                    got, glinks = parse_tar(os.path.join(s, "tar1.tar"))
                except Exception as e:
                    V("sqfs2tar-output-unreadable-by-tarfile", "%s: %s" % (type(e).__name__, e), 2)
                    return res
                d = dict_diff(texp, got, "tarfile")
                if not d and sorted(tlinks) != sorted(glinks):
                    d = ["tarfile: hard links expected %r got %r" % (sorted(tlinks)[:3], sorted(glinks)[:3])]
                if d:
                    V("sqfs2tar-differs:gensquashfs-image:" + re.sub(r"b'.*?'|b\".*?\"|\d+", "_", d[0])[:50], "; ".join(d[:4]), 2)
                    return res
            res["stages"]["sqfs2tar-on-gensquashfs-image"] = 1
    except Exception as e:
        import traceback
        res["err"] = "%s: %s %s" % (type(e).__name__, e, traceback.format_exc()[-400:])
    return res


def work(a):
    bdir, seed, prof = a
    if prof.get("from_gensquashfs"):
        return work_from_gensquashfs(bdir, seed, prof)
    res = {"conv": 0, "viol": [], "err": None, "case": None, "dialect": None, "stages": {}, "unrep": 0}
    r = rng(seed, "c04")

    def V(clause, detail, stage):
        res["viol"].append({"clause": clause, "detail": detail[:500], "stage": stage})

    try:
        with Scratch("c04") as s:
            model = tarmodel.gen_archive_model(r, nfiles=prof.get("nfiles", 6), ndirs=prof.get("ndirs", 2), hostile=prof.get("hostile", False),
                                               xattrs=prof.get("xattrs", False), hardlinks=prof.get("hardlinks", True), sparse=prof.get("sparse", True),
                                               big=prof.get("big", False), link_specials=prof.get("link_specials", False))
            dialect = prof.get("dialect") or tarmodel.dialect_for(r, model)
            data, kept = tarmodel.emit_archive(model, dialect, r)
            res["dialect"] = dialect
            res["unrep"] = len(model) - len(kept)
            # hard links whose target did not make it into this dialect would dangle: drop them from the archive
            names = set(tarmodel.canon(e.name) for e in kept if e.type != "hlink")
            if any(e.type == "hlink" and tarmodel.canon(e.target) not in names for e in kept):
                kept2 = [e for e in kept if not (e.type == "hlink" and tarmodel.canon(e.target) not in names)]
                data, kept = tarmodel.emit_archive(kept2, dialect, rng(seed, "c04-re"))
            open(os.path.join(s, "in.tar"), "wb").write(data)
            res["case"] = {"seed": seed, "profile": prof, "dialect": dialect, "members": [e.brief() for e in kept[:6]], "n": len(kept)}
            comp = r.choice(["gzip", "xz", "lz4", "zstd"])
            bs = r.choice([4096, 4096, 32768, 131072])
            opts = ["-c", comp, "-b", str(bs), "-q", "-j", str(r.choice([1, 2, 4]))]
            no_x = r.random() < 0.2
            keep_time = r.random() >= 0.2
            if no_x:
                opts.append("-x")
            if not keep_time:
                opts.append("-k")
            case = pipelines.Case(seed, "tar2sqfs")
            case.tool = "tar2sqfs"
            case.stdin = "in.tar"
            case.out_image = "img1.sqfs"
            case.outputs = {"image": "img1.sqfs"}
            case.argv = opts + ["img1.sqfs"]
            # ---- stage 1: tar -> image
            o = pipelines.run_case(bdir, case, s, io_plan(r), "asan" if seed % 3 == 0 else "plain", timeout=180, cpu=60)
            res["conv"] += 1
            if o.rc != 0:
                V("tar2sqfs-refused-valid-archive", "%s: %s" % (o.verdict, o.stderr[-300:].decode(errors="replace")), 1)
                return res
            img = sqfsdec.decode(os.path.join(s, "img1.sqfs"))
            if not img.ok():
                V("image-undecodable", img.errors[0], 1)
                return res
            summ1 = sqfsdec.tree_summary(img)
            exp, groups = tarmodel.expected_tree(kept, no_xattr=no_x, keep_time=keep_time)
            d = treegen.compare_tree(exp, groups, summ1)
            if d:
                V("tar2sqfs-tree-differs:" + re.sub(r"b'.*?'|b\".*?\"|\d+", "_", d[0])[:50], "; ".join(d[:4]), 1)
                return res
            res["stages"]["tar2sqfs"] = 1
            # ---- stage 2: image -> tar, two independent readers
            c2 = pipelines.Case(seed, "sqfs2tar")
            c2.tool = "sqfs2tar"
            c2.outputs = {"stdout": None}
            s2opts = []
            no_x2 = r.random() < 0.2
            no_l2 = r.random() < 0.2
            if no_x2:
                s2opts.append("-X")
            if no_l2:
                s2opts.append("-L")
            c2.argv = s2opts + ["img1.sqfs"]
            o2 = pipelines.run_case(bdir, c2, s, io_plan(r), "plain", timeout=180, cpu=60)
            res["conv"] += 1
            if o2.rc != 0:
                V("sqfs2tar-failed", "%s: %s" % (o2.verdict, o2.stderr[-300:].decode(errors="replace")), 2)
                return res
            shutil.copyfile(os.path.join(s, ".stdout"), os.path.join(s, "tar1.tar"))
            texp, tlinks = image_as_tar_expectation(summ1, no_xattr=no_x2, no_links=no_l2)
            try:
                got, glinks = parse_tar(os.path.join(s, "tar1.tar"))
            except Exception as e:
                V("sqfs2tar-output-unreadable-by-tarfile", "%s: %s" % (type(e).__name__, e), 2)
                return res
            d = dict_diff(texp, got, "tarfile")
            if not d and sorted(tlinks) != sorted(glinks):
                d = ["tarfile: hard links expected %r got %r" % (sorted(tlinks)[:3], sorted(glinks)[:3])]
            if d:
                V("sqfs2tar-differs:" + re.sub(r"b'.*?'|b\".*?\"|\d+", "_", d[0])[:50], "; ".join(d[:4]), 2)
                return res
            # ---- stage 2b: the path options of sqfs2tar (--subdir, --keep-as-dir, --root-becomes)
            dirs_in_img = sorted(p for p, v in summ1.items() if p and v[0] == "dir" and not any(summ1.get(p[:i], ("",))[0] == "sock" for i in range(len(p))))
            for _ in range(2):
                ro = rng(seed, "pathopts", _)
                subdirs = ro.sample(dirs_in_img, min(len(dirs_in_img), ro.choice([0, 1, 1, 1, 2]))) if dirs_in_img else []
                keep = bool(subdirs) and ro.random() < 0.4
                rb = ro.choice([None, None, b".", b"newroot", b"a/b"])
                if not subdirs and rb is None:
                    rb = b"rootdir"
                c3 = pipelines.Case(seed, "sqfs2tar")
                c3.tool = "sqfs2tar"
                c3.outputs = {"stdout": None}
                nox3 = ro.random() < 0.2
                c3.argv = (["-X"] if nox3 else []) + [x for d in subdirs for x in ("-d", os.fsdecode(d))] + (["-k"] if keep else []) + \
                    (["-r", os.fsdecode(rb)] if rb is not None else []) + ["img1.sqfs"]
                o3 = pipelines.run_case(bdir, c3, s, io_plan(ro), "plain", timeout=180, cpu=60)
                res["conv"] += 1
                what = "sqfs2tar %s" % " ".join(c3.argv[:-1])
                if o3.rc != 0:
                    V("sqfs2tar-path-options-failed", "%s: %s %s" % (what, o3.verdict, o3.stderr[-200:].decode(errors="replace")), 2)
                    break
                shutil.copyfile(os.path.join(s, ".stdout"), os.path.join(s, "tar1p.tar"))
                try:
                    gotp, glp = parse_tar(os.path.join(s, "tar1p.tar"))
                except Exception as e:
                    V("sqfs2tar-path-options-output-unreadable", "%s: %s: %s" % (what, type(e).__name__, e), 2)
                    break
                view, dangling = resolved_view(gotp, glp)
                if view is None:
                    V("sqfs2tar-path-options-dangling-hard-link", "%s: link %r -> %r names no earlier member of the archive" % (what, dangling[0], dangling[1]), 2)
                    break
                expp = path_option_expectation(summ1, subdirs, keep, rb.rstrip(b"/") if rb is not None else None, nox3)
                dp = dict_diff(expp, view, "path options")
                if dp:
                    V("sqfs2tar-path-options-differ:" + re.sub(r"b'.*?'|b\".*?\"|\d+", "_", dp[0])[:50], "%s: %s" % (what, "; ".join(dp[:4])), 2)
                    break
                res["stages"]["pathopts"] = res["stages"].get("pathopts", 0) + 1
            rc, err, snap = gnu_tar_extract(os.path.join(s, "tar1.tar"), os.path.join(s, "x"))
            # what the host file system cannot hold (xattr namespaces, names / link targets beyond its limits) says nothing about the archive
            if rc != 0 and b"xattr" not in err and b"Operation not" not in err and b"File name too long" not in err:
                V("sqfs2tar-output-rejected-by-gnu-tar", err[-300:].decode(errors="replace"), 2)
                return res
            if rc == 0:
                for path, v in texp.items():
                    sn = snap.get(path)
                    if sn is None:
                        V("gnu-tar-missing-entry", repr(path), 2)
                        break
                    if v[0] == "file" and sn[5] != hashlib.sha256(v[5]).hexdigest():
                        V("gnu-tar-content-differs", repr(path), 2)
                        break
                    if v[0] == "slink" and sn[5] != v[5]:
                        V("gnu-tar-symlink-differs", repr(path), 2)
                        break
                    if v[0] != "slink" and (sn[1], sn[2], sn[3]) != (v[1], v[2], v[3]):
                        V("gnu-tar-attrs-differ", "%r %r vs %r" % (path, sn[1:4], v[1:4]), 2)
                        break
                    if v[0] in ("file",) and sn[6] != -1 and sn[6] != v[4]:
                        V("gnu-tar-mtime-differs", "%r %r vs %r" % (path, sn[6], v[4]), 2)
                        break
            res["stages"]["sqfs2tar"] = 1
            if res["viol"] or no_x2 or no_l2:
                return res
            # ---- stage 3: fixpoint
            def t2s(src, dst):
                c = pipelines.Case(seed, "tar2sqfs")
                c.tool = "tar2sqfs"
                c.stdin = src
                c.out_image = dst
                c.outputs = {"image": dst}
                c.argv = ["-c", comp, "-b", str(bs), "-q", dst]
                return pipelines.run_case(bdir, c, s, io_plan(r), "plain", timeout=180, cpu=60)

            def s2t(src, dst):
                c = pipelines.Case(seed, "sqfs2tar")
                c.tool = "sqfs2tar"
                c.outputs = {"stdout": None}
                c.argv = [src]
                o = pipelines.run_case(bdir, c, s, io_plan(r), "plain", timeout=180, cpu=60)
                shutil.copyfile(os.path.join(s, ".stdout"), os.path.join(s, dst))
                return o
            oa = t2s("tar1.tar", "img2.sqfs")
            ob = s2t("img2.sqfs", "tar2.tar")
            oc = t2s("tar2.tar", "img3.sqfs")
            res["conv"] += 3
            if oa.rc or ob.rc or oc.rc:
                V("roundtrip-step-failed", "%s %s %s %s" % (oa.verdict, ob.verdict, oc.verdict, (oa.stderr + ob.stderr + oc.stderr)[-200:].decode(errors="replace")), 3)
                return res
            img2 = sqfsdec.decode(os.path.join(s, "img2.sqfs"))
            if not img2.ok():
                V("roundtrip-image-undecodable", img2.errors[0], 3)
                return res
            s1 = {k: v[:7] for k, v in summ1.items() if k != b"" and v[0] != "sock"}
            s2 = {k: v[:7] for k, v in sqfsdec.tree_summary(img2).items() if k != b""}
            d = dict_diff(s1, s2, "roundtrip")
            if d:
                V("roundtrip-tree-differs:" + re.sub(r"b'.*?'|\d+", "_", d[0])[:50], "; ".join(d[:4]), 3)
                return res
            tdiff = sha256_file(os.path.join(s, "tar1.tar")) != sha256_file(os.path.join(s, "tar2.tar"))
            idiff = sha256_file(os.path.join(s, "img2.sqfs")) != sha256_file(os.path.join(s, "img3.sqfs"))
            if tdiff or idiff:
                # classify by experiment: are the two results equal up to the order of xattr records of one inode?
                img3 = sqfsdec.decode(os.path.join(s, "img3.sqfs"))
                multi = any(len(n.xattrs or {}) >= 2 for n in img2.inodes_by_ref.values())
                sem_equal = img3.ok() and sqfsdec.tree_summary(img3) == sqfsdec.tree_summary(img2)
                order2 = [tuple(k for k, _ in xs) for xs in img2.xattr_sets]
                order3 = [tuple(k for k, _ in xs) for xs in img3.xattr_sets] if img3.ok() else None
                only_order = multi and sem_equal and order3 is not None and sorted(map(sorted, order2)) == sorted(map(sorted, order3)) and order2 != order3
                # tar1 is the listing of img1, tar2 the listing of img2: the same experiment one generation earlier (the xattr writer numbers
                # keys in order of first appearance and stores a set sorted by those numbers, so the reversal per pass may die out at img2
                # == img3 while tar1 != tar2 still shows it)
                order1 = [tuple(k for k, _ in xs) for xs in img.xattr_sets]
                multi1 = any(len(xs) >= 2 for xs in img.xattr_sets)
                only_order_t = multi1 and set(order1) != set(order2) and \
                    sorted(tuple(sorted(xs)) for xs in img.xattr_sets) == sorted(tuple(sorted(xs)) for xs in img2.xattr_sets) and \
                    tar_semantic(os.path.join(s, "tar1.tar")) == tar_semantic(os.path.join(s, "tar2.tar"))
                if tdiff:
                    V("fixpoint-tar-differs" + (":only-xattr-order-within-a-set" if (only_order or only_order_t) else ""), "tar2 != tar1", 3)
                if idiff:
                    V("fixpoint-image-differs" + (":only-xattr-order-within-a-set" if only_order else ""), "img3 != img2", 3)
            res["stages"]["fixpoint"] = 1
    except Exception as e:
        import traceback
        res["err"] = "%s: %s %s" % (type(e).__name__, e, traceback.format_exc()[-500:])
    return res


PROFILES = [{"nfiles": 6, "ndirs": 2}, {"nfiles": 6, "ndirs": 3, "xattrs": True}, {"nfiles": 5, "ndirs": 2, "hostile": True},
            {"nfiles": 8, "ndirs": 2, "big": True}, {"nfiles": 4, "ndirs": 1, "dialect": "v7", "sparse": False},
            {"nfiles": 5, "ndirs": 2, "dialect": "ustar", "sparse": False}, {"nfiles": 5, "ndirs": 2, "dialect": "gnu"},
            {"nfiles": 5, "ndirs": 2, "dialect": "pax", "xattrs": True}, {"nfiles": 3, "ndirs": 2, "link_specials": True, "sparse": False},
            {"nfiles": 4, "ndirs": 2, "from_gensquashfs": True}]


def tar_semantic(path):
    """member list with the extended header records of each member sorted: equal for two archives that differ only in record order"""
    import tarfile, hashlib
    out = []
    with tarfile.open(path, "r:", errors="surrogateescape") as t:
        for m in t:
            h = hashlib.sha256(t.extractfile(m).read()).hexdigest() if m.isreg() else None
            out.append((m.name, m.type, m.size, m.mtime, m.uid, m.gid, m.mode, m.linkname, m.devmajor, m.devminor, tuple(sorted(m.pax_headers.items())), h))
    return out


def replay(spec, bdir=None):
    bdir = bdir or vfbuild.build()
    r = work((bdir, spec["seed"], spec["profile"]))
    found = [v for v in r["viol"] if v["clause"] == spec["clause"]]
    print("replay: %s -> %s" % (spec["clause"], "REPRODUCED: " + found[0]["detail"] if found else "not reproduced (%s)" % (r["viol"] or r["err"])))
    return 1 if found else 0


def main():
    t = tier()
    seed = master_seed()
    rep = Report(PROP, "exploration")
    bdir = vfbuild.build()
    n = 160 if t == "quick" else 6000
    items = [(bdir, derive(seed, "c04", i) >> 1, PROFILES[i % len(PROFILES)]) for i in range(n)]
    results = list(pmap_unordered(work, items))
    for r in results:
        if r["err"]:
            rep.harness_error(r["err"])
    seen = {}
    for r in results:
        for v in r["viol"]:
            seen.setdefault("%s:%s" % (r["dialect"] if v["stage"] == 1 else "any", v["clause"]), (r, v))
    for key, (r, v) in sorted(seen.items()):
        again = work((bdir, r["case"]["seed"], r["case"]["profile"]))
        if not [x for x in again["viol"] if x["clause"] == v["clause"]]:
            rep.harness_error("violation %s did not reproduce" % key)
            continue
        spec = {"property": PROP, "seed": r["case"]["seed"], "profile": r["case"]["profile"], "clause": v["clause"], "detail": v["detail"],
                "dialect": r["dialect"], "members": r["case"]["members"]}
        rep.violation(key, "%s archive (%d members): %s" % (r["dialect"], r["case"]["n"], v["detail"][:300]), rep.write_replay("c04", spec))
    stages = {}
    dialects = {}
    for r in results:
        for k in r["stages"]:
            stages[k] = stages.get(k, 0) + 1
        dialects[r["dialect"]] = dialects.get(r["dialect"], 0) + 1
    cov = {
        "evaluations": sum(r["conv"] for r in results),
        "distinct_nontrivial": sum(len(r["stages"]) for r in results),
        "rule": "one evaluation = one conversion run (tar2sqfs or sqfs2tar) under a seeded chunking / short I/O / schedule plan; distinct "
                "non-trivial = conversion stages that completed and matched their oracle (each archive has its own seed)",
        "samples": [r["case"] for r in results[:3] if r["case"]],
        "archives": len(results),
        "archives_by_dialect": dialects,
        "stages_passed": stages,
        "members_not_representable_in_dialect": sum(r["unrep"] for r in results),
        "components_real": ["tar2sqfs, sqfs2tar (lib/tar, fstree, writers/readers)", "GNU tar and Python tarfile as independent readers"],
        "components_simulated": ["stdin chunking, short read/write, EINTR, thread schedule"],
    }
    return rep.finish(cov, ["archive shapes come from the generator (validated against GNU tar and Python tarfile); the simulator adds "
                            "chunking, short I/O and schedules", "xattrs are compared through SCHILY.xattr records (tarfile) only"])


if __name__ == "__main__":
    sys.exit(main())
