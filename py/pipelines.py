"""Tool pipelines: deterministic construction of inputs from a seed, and one function that runs a
pipeline once under a plan and returns its observable outcome (exit status, output bytes hashes,
unpacked-tree snapshot, diagnostics, trace)."""
import os, stat, hashlib, shutil, subprocess, tarfile, io, json
from common import *
import treegen

COMPRESSORS = ["gzip", "xz", "lz4", "zstd", "lzma"]


def _mt(t):
    # a time stamp nobody set is "now": not comparable between two runs, mapped to a sentinel.
    # (generated mtimes are never within a day of the wall clock)
    import time
    return -1 if abs(t - time.time()) < 86400 else int(t)


def snapshot_dir(root, with_mtime=True):
    """recursive snapshot used to compare unpacked trees / jail contents"""
    out = {}
    root_b = os.fsencode(root)
    for dirpath, dirnames, filenames in os.walk(root_b):
        for nm in dirnames + filenames:
            p = os.path.join(dirpath, nm)
            rel = os.path.relpath(p, root_b)
            try:
                st = os.lstat(p)
            except OSError:
                continue
            kind = stat.S_IFMT(st.st_mode)
            extra = None
            if stat.S_ISREG(st.st_mode):
                extra = sha256_file(p)
            elif stat.S_ISLNK(st.st_mode):
                extra = os.readlink(p)
            elif stat.S_ISCHR(st.st_mode) or stat.S_ISBLK(st.st_mode):
                extra = st.st_rdev
            try:
                xa = tuple(sorted((os.fsencode(k), os.getxattr(p, k, follow_symlinks=False)) for k in os.listxattr(p, follow_symlinks=False)))
            except OSError:
                xa = ()
            out[rel] = (kind, stat.S_IMODE(st.st_mode), st.st_uid, st.st_gid,
                        st.st_size if stat.S_ISREG(st.st_mode) else 0, extra, _mt(st.st_mtime) if with_mtime else 0, xa,
                        st.st_nlink if not stat.S_ISDIR(st.st_mode) else 0)
    return out


def snap_hash(snap):
    h = hashlib.sha256()
    for k in sorted(snap):
        h.update(repr((k, snap[k])).encode())
    return h.hexdigest()


class Case:
    """One pipeline instance. Everything is derived from (seed, kind, profile)."""

    def __init__(self, seed, kind, profile=None):
        self.seed, self.kind, self.profile = seed, kind, dict(profile or {})
        self.tool = None
        self.argv = []
        self.stdin = None
        self.outputs = {}       # name -> relative path (files whose bytes are the result)
        self.out_image = None   # relative path of the image a packer writes (must not exist after failure)
        self.unpack_root = None
        self.ents = None
        self.expected = None
        self.env = {}
        self.desc = {}

    def describe(self):
        d = {"seed": self.seed, "kind": self.kind, "profile": self.profile, "tool": self.tool, "argv": self.argv}
        d.update(self.desc)
        return d


def _mk_tree(r, prof, bs):
    return treegen.gen_tree(r, bs=bs, nfiles=prof.get("nfiles", 6), ndirs=prof.get("ndirs", 2),
                            hostile=prof.get("hostile", False), specials=prof.get("specials", True),
                            xattrs=prof.get("xattrs", False), hardlinks=prof.get("hardlinks", False),
                            big=prof.get("big", False), bigdir=prof.get("bigdir", 0), bigdir_dense=prof.get("bigdir_dense", False), duptails=prof.get("duptails", 0), tiny=prof.get("tiny", 0), samenames=prof.get("samenames", False))


def build_case(bdir, seed, kind, profile, casedir):
    """Creates all inputs under casedir and returns the Case. kind:
       gen-packfile | gen-packdir | tar2sqfs | sqfs2tar | rd-cat | rd-list | rd-describe | rd-xattr | rd-stat | rd-unpack"""
    prof = dict(profile or {})
    c = Case(seed, kind, prof)
    r = rng(seed, "case", kind)
    os.makedirs(casedir, exist_ok=True)
    comp = prof.get("comp") or r.choice(["gzip", "gzip", "xz", "lz4", "zstd"])
    bs = prof.get("bs") or r.choice([4096, 4096, 4096, 8192, 16384, 131072])
    c.desc.update(comp=comp, bs=bs)
    base_opts = ["-c", comp, "-b", str(bs), "-q"]
    rx = rng(seed, "xopts")
    if prof.get("xopts", rx.randrange(3) == 0):
        # compressor options with per-block searches (gzip strategies, xz filters): a compressor instance per worker keeps state between blocks
        table = {"gzip": ["huffman,rle", "filtered,fixed,huffman", "default,rle", "level=1,huffman,rle,filtered", "window=9", "level=9"],
                 "xz": ["x86,arm", "x86,powerpc,sparc", "level=1", "dictsize=8192,x86", "extreme"],
                 "lz4": ["hc"], "zstd": ["level=1", "level=19"], "lzma": ["level=1", "extreme"]}
        x = rx.choice(table.get(comp, [""]))
        if x:
            base_opts += ["-X", x]
            c.desc["xopts"] = x
    if "jobs" in prof:
        base_opts += ["-j", str(prof["jobs"])]
    if "backlog" in prof:
        base_opts += ["-Q", str(prof["backlog"])]
    if kind in ("gen-packfile", "gen-packdir"):
        ents = _mk_tree(r, prof, bs)
        c.ents = ents
        c.tool = "gensquashfs"
        opts = list(base_opts)
        if prof.get("exportable", r.randrange(3) == 0):
            opts.append("-e")
        if prof.get("notail", r.randrange(5) == 0):
            opts.append("-T")
        if kind == "gen-packfile":
            ents = [e for e in ents if treegen.packfile_representable(e)]
            c.ents = ents
            treegen.emit_packfile(ents, casedir)
            opts += ["-F", "pack.txt", "-D", "."]
            defaults = None
            if r.randrange(3) == 0:
                defaults = {"uid": r.choice([0, 7, 1000]), "gid": r.choice([0, 9]), "mode": r.choice([0o755, 0o700]),
                            "mtime": r.choice([0, 5, 1500000000])}
                opts += ["-d", "uid=%d,gid=%d,mode=0%o,mtime=%d" % (defaults["uid"], defaults["gid"], defaults["mode"], defaults["mtime"])]
            with_x = False
            if prof.get("xattrs"):
                treegen.emit_xattr_file(ents, casedir)
                opts += ["-A", "xattr.txt"]
                with_x = True
            c.expected = ("packfile", defaults, with_x)
        else:
            treegen.host_materialisable(ents)
            treegen.emit_dir(ents, os.path.join(casedir, "tree"))
            opts += ["-D", "tree"]
            if prof.get("keep_time", True):
                opts.append("-k")
            if prof.get("xattrs"):
                opts.append("-x")
            c.expected = ("packdir",)
        rs = rng(seed, "sortfile")
        if prof.get("sortfile", rs.randrange(4) == 0):
            # a sort file changes packing order and per-file block flags, never the logical tree
            files = [e for e in ents if e.type == treegen.FILE]
            with open(os.path.join(casedir, "sort.txt"), "wb") as f:
                for e in files:
                    if rs.randrange(3) == 0:
                        continue
                    fl = [x for x in (b"dont_compress", b"dont_fragment", b"dont_deduplicate", b"nosparse") if rs.randrange(4) == 0]
                    f.write(b"%d %s%s\n" % (rs.randrange(-3, 4), (b"[" + b",".join(fl) + b"] ") if fl else b"", treegen.sort_name(e.path)))
            opts += ["-S", "sort.txt"]
            c.desc["sortfile"] = True
        c.argv = opts + ["out.sqfs"]
        c.out_image = "out.sqfs"
        c.outputs = {"image": "out.sqfs"}
        return c
    # the other pipelines need an image or an archive first
    ents = _mk_tree(r, prof, bs)
    ents = [e for e in ents if treegen.packfile_representable(e)]
    c.ents = ents
    if kind == "tar2sqfs":
        make_tar(ents, os.path.join(casedir, "in.tar"), r, prof)
        src = "in.tar"
        wrap = prof.get("wrap")
        if wrap:
            src = compress_file(os.path.join(casedir, "in.tar"), wrap)
            src = os.path.basename(src)
        c.tool = "tar2sqfs"
        c.argv = base_opts + ["out.sqfs"]
        c.stdin = src
        c.out_image = "out.sqfs"
        c.outputs = {"image": "out.sqfs"}
        return c
    # readers: make an image with the fault-free simulated packer
    treegen.emit_packfile(ents, casedir)
    opts = base_opts + ["-F", "pack.txt", "-D", "."]
    if prof.get("xattrs"):
        treegen.emit_xattr_file(ents, casedir)
        opts += ["-A", "xattr.txt"]
    rr = run_sim(os.path.join(bdir, "plain", "sim-gensquashfs"), opts + ["img.sqfs"], cwd=casedir)
    if rr.rc != 0:
        raise RuntimeError("case setup: gensquashfs failed: %s" % rr.stderr[-300:])
    files = [e for e in ents if e.type == treegen.FILE]
    if kind == "sqfs2tar":
        c.tool = "sqfs2tar"
        c.argv = []
        if prof.get("tarcomp"):
            c.argv += ["-c", prof["tarcomp"]]
        c.argv += ["img.sqfs"]
        c.outputs = {"stdout": None}
    elif kind == "rd-cat":
        c.tool = "rdsquashfs"
        f = r.choice(files) if files else None
        c.argv = ["-c", (f.path.decode("latin1") if f else "nonexistent"), "img.sqfs"]
        c.outputs = {"stdout": None}
    elif kind in ("rd-list", "rd-describe", "rd-xattr", "rd-stat"):
        c.tool = "rdsquashfs"
        flag = {"rd-list": "-l", "rd-describe": "-d", "rd-xattr": "-x", "rd-stat": "-s"}[kind]
        target = "/" if kind != "rd-xattr" else (r.choice(ents).path.decode("latin1") if ents else "/")
        c.argv = [flag, target, "img.sqfs"] if kind != "rd-describe" else ["-d", "img.sqfs"]
        c.outputs = {"stdout": None}
    elif kind == "rd-unpack":
        c.tool = "rdsquashfs"
        flags = []
        for f in ("-C", "-O", "-T", "-X", "-Z"):
            if r.randrange(2):
                flags.append(f)
        c.argv = flags + ["-q", "-u", "/", "-p", "unp", "img.sqfs"]
        c.unpack_root = "unp"
        c.outputs = {}
    else:
        raise ValueError(kind)
    return c


# ------------------------------------------------------------------ tar input (first cut: Python tarfile)
def make_tar(ents, path, r, prof):
    fmt = prof.get("tarfmt") or r.choice(["gnu", "pax", "ustar"])
    tf = tarfile.open(path, "w", format={"gnu": tarfile.GNU_FORMAT, "pax": tarfile.PAX_FORMAT,
                                         "ustar": tarfile.USTAR_FORMAT}[fmt])
    for e in ents:
        name = e.path.decode("latin1")
        if fmt == "ustar" and (len(name) > 99 or (e.target and len(e.target) > 99)):
            continue
        ti = tarfile.TarInfo(name)
        if e.type == treegen.DIR:
            if not e.explicit:
                continue
            ti.type = tarfile.DIRTYPE
        elif e.type == treegen.FILE:
            ti.type = tarfile.REGTYPE
            ti.size = len(e.content)
        elif e.type == treegen.SLINK:
            ti.type = tarfile.SYMTYPE
            ti.linkname = e.target.decode("latin1")
        elif e.type == treegen.LINK:
            ti.type = tarfile.LNKTYPE
            ti.linkname = e.target.decode("latin1")
        elif e.type == treegen.CHR:
            ti.type = tarfile.CHRTYPE
            ti.devmajor, ti.devminor = e.dev
        elif e.type == treegen.BLK:
            ti.type = tarfile.BLKTYPE
            ti.devmajor, ti.devminor = e.dev
        elif e.type == treegen.FIFO:
            ti.type = tarfile.FIFOTYPE
        else:
            continue
        if e.mode is not None:
            ti.mode = e.mode
            ti.uid, ti.gid = (e.uid, e.gid)
            if fmt == "ustar":
                ti.uid = min(ti.uid, 0o7777777)
                ti.gid = min(ti.gid, 0o7777777)
            ti.mtime = e.mtime if e.mtime < (1 << 33) else 0
        ti.uname = ti.gname = ""
        tf.addfile(ti, io.BytesIO(e.content) if e.type == treegen.FILE else None)
    tf.close()


def compress_file(path, codec):
    import gzip, bz2, lzma
    data = open(path, "rb").read()
    if codec == "gzip":
        out, blob = path + ".gz", gzip.compress(data, 6, mtime=0)
    elif codec == "xz":
        out, blob = path + ".xz", lzma.compress(data, format=lzma.FORMAT_XZ)
    elif codec == "bzip2":
        out, blob = path + ".bz2", bz2.compress(data)
    elif codec == "zstd":
        out = path + ".zst"
        import zstdlib
        blob = zstdlib.compress(data, 3)
    else:
        raise ValueError(codec)
    with open(out, "wb") as f:
        f.write(blob)
    return out


# ------------------------------------------------------------------ running a case once
class Outcome:
    __slots__ = ("verdict", "rc", "sig", "timeout", "hashes", "stderr", "trace", "snap", "image_exists", "wall", "stdout_len")

    def key(self):
        """what must be identical between a reference run and a benign-fault run"""
        return (self.verdict, tuple(sorted(self.hashes.items())), self.snap)


def run_case(bdir, case, casedir, plan, variant="plain", extra_env=None, keep_image=None, timeout=120, cpu=20,
             argv=None, umask=None, preexisting=None):
    """Runs the case's tool in casedir. Outputs of a previous run are removed first; preexisting: bytes the output image path
    holds before the run (packers with -f)."""
    binary = os.path.join(bdir, variant, "sim-" + case.tool)
    for rel in list(case.outputs.values()) + [case.out_image, case.unpack_root]:
        if rel:
            p = os.path.join(casedir, rel)
            if os.path.isdir(p) and not os.path.islink(p):
                shutil.rmtree(p, ignore_errors=True)
            elif os.path.lexists(p):
                os.unlink(p)
    if case.unpack_root:
        os.makedirs(os.path.join(casedir, case.unpack_root))
    if preexisting is not None and case.out_image:
        with open(os.path.join(casedir, case.out_image), "wb") as f:
            f.write(preexisting)
    stdout_path = os.path.join(casedir, ".stdout")
    env = dict(case.env)
    if extra_env:
        env.update(extra_env)
    watch = ""
    if plan is not None:
        if case.out_image:
            watch += "watch out %s\nwatch out %s\n" % (case.out_image, os.path.join(casedir, case.out_image))
        if "img.sqfs" in case.argv:
            watch += "watch img img.sqfs\n"
    r = run_sim(binary, argv if argv is not None else case.argv, plan=(watch + plan) if plan is not None else None, cwd=casedir, umask=umask,
                stdin=os.path.join(casedir, case.stdin) if case.stdin else None, env=env, timeout=timeout, cpu=cpu,
                stdout_path=stdout_path)
    o = Outcome()
    o.verdict = r.verdict()
    o.rc, o.sig, o.timeout, o.trace, o.wall = r.rc, r.sig, r.timeout, r.trace, r.wall
    o.stderr = r.stderr
    o.hashes = {}
    o.snap = None
    for name, rel in case.outputs.items():
        if name == "stdout":
            o.hashes["stdout"] = sha256_file(stdout_path)
        else:
            o.hashes[name] = sha256_file(os.path.join(casedir, rel))
    try:
        o.stdout_len = os.path.getsize(stdout_path)
    except OSError:
        o.stdout_len = 0
    o.image_exists = bool(case.out_image) and os.path.lexists(os.path.join(casedir, case.out_image))
    if case.unpack_root:
        o.snap = snap_hash(snapshot_dir(os.path.join(casedir, case.unpack_root), "-T" in case.argv))
    if keep_image and case.out_image and o.image_exists:
        shutil.copyfile(os.path.join(casedir, case.out_image), keep_image)
    return o
