"""Build the simulated binaries from the repository's *current working tree*.

Every project source is compiled directly (no use of the repository's own build output), in two
variants (plain, asan), and linked with simos under GNU ld --wrap so that only the project's own
references to libc / pthread / a few internal symbols are redirected to the simulator.
Objects are cached under /verif/build/<treehash>/ ; any change to a source, header, flag or simos
file gives a new hash and therefore a full rebuild (~10 s on 16 cores).
"""
import hashlib, os, subprocess, sys, glob, shutil, json, time
from concurrent.futures import ThreadPoolExecutor

VERIF = os.path.dirname(os.path.dirname(os.path.abspath(__file__)))
REPO = os.environ.get("VERIF_REPO", "/repo")
BUILD_ROOT = os.path.join(VERIF, "build")
GUARD = "AGENTD_SQUASHFS_TOOLS_NG_VERIF"

WRAP = """malloc calloc realloc strdup strndup mmap
read write pread pwrite open openat close dup lseek ftruncate fstat fstatat fsync unlink mkdir symlink
mknod fchownat fchmodat utimensat lsetxattr lgetxattr llistxattr readlinkat chdir
setxattr chmod chown lchown truncate rename link unlinkat mkdirat symlinkat rmdir
opendir fdopendir readdir closedir
pthread_create pthread_join pthread_mutex_init pthread_mutex_destroy pthread_mutex_lock
pthread_mutex_unlock pthread_cond_init pthread_cond_destroy pthread_cond_wait pthread_cond_signal
pthread_cond_broadcast
sched_getaffinity xxh32 thread_pool_create sqfs_compressor_create time clock_gettime gettimeofday""".split()

LIB_DIRS = ["lib/sqfs/src", "lib/util/src", "lib/common/src", "lib/fstree/src", "lib/tar/src",
            "lib/xfrm/src", "lib/compat/src"]
EXCLUDE = {"win32.c", "dir_win32.c", "comp_lzo.c", "w32_perror.c", "w32_wmain.c", "w32_stdio.c",
           "path_to_windows.c"}
TOOLS = ["gensquashfs", "rdsquashfs", "tar2sqfs", "sqfs2tar", "sqfsdiff"]
SCENARIOS = ["pool", "blockproc", "reader", "copy"]
SIMOS = ["core.c", "sched.c", "io.c", "alloc.c", "misc.c", "sanopts.c"]

DEFS = ["-DHAVE_CONFIG_H", "-D_GNU_SOURCE", "-DWITH_GZIP", "-DWITH_XZ", "-DWITH_LZ4", "-DWITH_ZSTD",
        "-DWITH_BZIP2", "-DWITH_SELINUX", "-DHAVE_PTHREAD", "-D" + GUARD,
        "-U_FORTIFY_SOURCE", "-D_FORTIFY_SOURCE=0"]
NOBUILTIN = ["-fno-builtin-malloc", "-fno-builtin-calloc", "-fno-builtin-realloc", "-fno-builtin-strdup",
             "-fno-builtin-strndup", "-fno-builtin-free"]
BASE_CFLAGS = ["-std=gnu99", "-O1", "-g", "-fno-omit-frame-pointer", "-pthread", "-w"] + NOBUILTIN
VARIANTS = {
    "plain": [],
    "asan": ["-fsanitize=address",
             "-fsanitize=bounds,object-size,null,pointer-overflow,vla-bound,return,unreachable",
             "-fno-sanitize-recover=all"],
}
LIBS = ["-lz", "-llzma", "-llz4", "-lzstd", "-lbz2", "-lselinux", "-lpthread"]
CC = os.environ.get("VERIF_CC", "gcc")


def repo_sources(repo):
    libs = []
    for d in LIB_DIRS:
        for root, _, files in os.walk(os.path.join(repo, d)):
            for f in sorted(files):
                if f.endswith(".c") and f not in EXCLUDE:
                    libs.append(os.path.join(root, f))
    tools = {}
    for t in TOOLS:
        tools[t] = sorted(glob.glob(os.path.join(repo, "bin", t, "src", "*.c")))
    return sorted(libs), tools


def tree_hash(repo):
    h = hashlib.sha256()
    files = []
    for top in ["include", "lib", "bin"]:
        for root, dirs, fs in os.walk(os.path.join(repo, top)):
            dirs[:] = [d for d in dirs if d not in (".deps", ".libs", "test")]
            for f in fs:
                if f.endswith((".c", ".h")):
                    files.append(os.path.join(root, f))
    for sub in ["simos", "scn", "cfg"]:
        for root, _, fs in os.walk(os.path.join(VERIF, sub)):
            for f in fs:
                if f.endswith((".c", ".h")):
                    files.append(os.path.join(root, f))
    cfgh = os.path.join(repo, "config.h")
    if os.path.exists(cfgh):
        files.append(cfgh)
    for f in sorted(files):
        rel = f.replace(repo, "R").replace(VERIF, "V")
        h.update(rel.encode())
        with open(f, "rb") as fh:
            h.update(hashlib.sha256(fh.read()).digest())
    h.update(json.dumps([WRAP, DEFS, BASE_CFLAGS, VARIANTS, LIBS, CC, repo], sort_keys=True).encode())
    return h.hexdigest()[:16]


def _run(cmd):
    p = subprocess.run(cmd, stdout=subprocess.PIPE, stderr=subprocess.STDOUT)
    return p.returncode, p.stdout.decode(errors="replace"), cmd


def build(repo=None, variants=("plain", "asan"), quiet=False):
    """Returns the build directory (contains <variant>/sim-<tool> and <variant>/scn-<name>)."""
    repo = repo or REPO
    th = tree_hash(repo)
    bdir = os.path.join(BUILD_ROOT, th)
    stamp = os.path.join(bdir, "OK")
    if os.path.exists(stamp):
        have = set(open(stamp).read().split())
        if set(variants) <= have:
            try:
                os.utime(bdir)          # "recently used": the cache bound below removes the least recently used builds
            except OSError:
                pass
            return bdir
    t0 = time.time()
    libs, tools = repo_sources(repo)
    cfgdir = repo if os.path.exists(os.path.join(repo, "config.h")) else os.path.join(VERIF, "cfg")
    inc = ["-I" + cfgdir, "-I" + os.path.join(repo, "include"), "-I" + os.path.join(VERIF, "simos")]
    jobs = []
    objs = {v: {"lib": [], "simos": [], "tools": {t: [] for t in TOOLS}, "scn": {}} for v in variants}
    for v in variants:
        vdir = os.path.join(bdir, v)
        os.makedirs(vdir, exist_ok=True)
        vflags = VARIANTS[v]

        def obj_for(src, prefix):
            rel = os.path.relpath(src, repo if src.startswith(repo) else VERIF).replace("/", "_")
            return os.path.join(vdir, prefix + rel[:-2] + ".o")

        for s in libs:
            o = obj_for(s, "L_")
            objs[v]["lib"].append(o)
            jobs.append([CC] + BASE_CFLAGS + vflags + DEFS + inc + ["-c", s, "-o", o])
        for t in TOOLS:
            for s in tools[t]:
                o = obj_for(s, "T_")
                objs[v]["tools"][t].append(o)
                jobs.append([CC] + BASE_CFLAGS + vflags + DEFS + inc +
                            ["-I" + os.path.join(repo, "bin", t, "src"), "-c", s, "-o", o])
        for s in SIMOS:
            src = os.path.join(VERIF, "simos", s)
            o = obj_for(src, "S_")
            objs[v]["simos"].append(o)
            # the simulator itself is never instrumented
            jobs.append([CC] + BASE_CFLAGS + DEFS + inc + ["-c", src, "-o", o])
        for sc in SCENARIOS:
            src = os.path.join(VERIF, "scn", sc + ".c")
            if not os.path.exists(src):
                continue
            o = obj_for(src, "C_")
            objs[v]["scn"][sc] = o
            jobs.append([CC] + BASE_CFLAGS + vflags + DEFS + inc +
                        ["-I" + os.path.join(repo, "lib/sqfs/src"), "-c", src, "-o", o])
    with ThreadPoolExecutor(16) as ex:
        results = list(ex.map(_run, jobs))
    bad = [r for r in results if r[0] != 0]
    if bad:
        for rc, out, cmd in bad[:5]:
            sys.stderr.write("BUILD FAILED: %s\n%s\n" % (" ".join(cmd[-3:]), out))
        raise SystemExit(2)
    wrapflags = ["-Wl,--wrap=" + w for w in WRAP]
    links = []
    for v in variants:
        vdir = os.path.join(bdir, v)
        vflags = VARIANTS[v]
        for t in TOOLS:
            links.append([CC, "-no-pie", "-pthread"] + vflags + ["-o", os.path.join(vdir, "sim-" + t)] +
                         objs[v]["tools"][t] + objs[v]["lib"] + objs[v]["simos"] + wrapflags + LIBS)
        for sc, o in objs[v]["scn"].items():
            links.append([CC, "-no-pie", "-pthread"] + vflags + ["-o", os.path.join(vdir, "scn-" + sc), o] +
                         objs[v]["lib"] + objs[v]["simos"] + wrapflags + LIBS)
    with ThreadPoolExecutor(16) as ex:
        results = list(ex.map(_run, links))
    bad = [r for r in results if r[0] != 0]
    if bad:
        for rc, out, cmd in bad[:5]:
            sys.stderr.write("LINK FAILED: %s\n%s\n" % (cmd[cmd.index("-o") + 1], out[-3000:]))
        raise SystemExit(2)
    with open(stamp, "w") as f:
        f.write(" ".join(variants))
    # keep the cache bounded
    olds = sorted((d for d in glob.glob(os.path.join(BUILD_ROOT, "*")) if os.path.isdir(d)),
                  key=os.path.getmtime)
    for d in olds[:-6]:
        if d != bdir:
            shutil.rmtree(d, ignore_errors=True)
    if not quiet:
        sys.stderr.write("[build] %s from %s in %.1fs (%d objects)\n" % (th, repo, time.time() - t0, len(jobs)))
    return bdir


if __name__ == "__main__":
    print(build())
