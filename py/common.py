"""Shared driver pieces: seeds, scratch dirs, running simulated binaries, traces, parallel map,
evidence, known findings, violation reporting / replay files. Standard library only."""
import os, sys, json, time, random, hashlib, shutil, subprocess, re, itertools, signal
import multiprocessing as mp

VERIF = os.path.dirname(os.path.dirname(os.path.abspath(__file__)))
SCRATCH_ROOT = os.environ.get("VERIF_SCRATCH", "/dev/shm")
OUT = os.path.join(VERIF, "out")
EVID = os.path.join(VERIF, "evidence")
if os.environ.get("VERIF_REPO") and os.path.realpath(os.environ["VERIF_REPO"]) != "/repo":
    # sensitivity runs against a scratch copy with a seeded change must not overwrite the evidence of the real tree
    EVID = os.path.join(OUT, "evidence-of-scratch-trees")
NWORKERS = int(os.environ.get("VERIF_WORKERS", "16"))

MASK = (1 << 64) - 1


def splitmix(x):
    x = (x + 0x9E3779B97F4A7C15) & MASK
    z = x
    z = ((z ^ (z >> 30)) * 0xBF58476D1CE4E5B9) & MASK
    z = ((z ^ (z >> 27)) * 0x94D049BB133111EB) & MASK
    return z ^ (z >> 31)


def derive(seed, *labels):
    """Independent sub-seed: adding a new label never shifts the others."""
    x = seed & MASK
    for l in labels:
        if isinstance(l, str):
            l = int.from_bytes(hashlib.sha256(l.encode()).digest()[:8], "little")
        x = splitmix(x ^ (l & MASK))
    return x


def rng(seed, *labels):
    return random.Random(derive(seed, *labels))


def master_seed():
    return int(os.environ.get("VERIF_SEED", "1"))


def tier():
    return os.environ.get("VERIF_TIER", "quick")


# ---------------------------------------------------------------- scratch
_scratch_n = itertools.count()


class Scratch:
    def __init__(self, tag="r"):
        self.path = os.path.join(SCRATCH_ROOT, "vf-%d-%s%d" % (os.getpid(), tag, next(_scratch_n)))

    def __enter__(self):
        shutil.rmtree(self.path, ignore_errors=True)
        os.makedirs(self.path)
        return self.path

    def __exit__(self, *a):
        shutil.rmtree(self.path, ignore_errors=True)


def cleanup_stale_scratch():
    """remove scratch dirs of dead processes (a killed check must not fill /dev/shm)"""
    for d in os.listdir(SCRATCH_ROOT):
        m = re.match(r"vf-(\d+)-", d)
        if m and not os.path.exists("/proc/%s" % m.group(1)):
            shutil.rmtree(os.path.join(SCRATCH_ROOT, d), ignore_errors=True)


# ---------------------------------------------------------------- running a simulated binary
class Trace:
    def __init__(self, raw):
        self.raw = raw
        self.hash = None
        self.viol = 0
        self.lines = []
        if raw:
            m = re.match(rb"len=(\d+) hash=([0-9a-f]+) viol=(\d+)", raw[:64])
            if m:
                n = int(m.group(1))
                self.hash = m.group(2).decode()
                self.viol = int(m.group(3))
                self.lines = raw[64:64 + n].decode(errors="replace").splitlines()

    def counts(self):
        """{(call, class): n} from N lines"""
        out = {}
        for l in self.lines:
            if l.startswith("N "):
                p = l.split()
                out[(p[1], p[2])] = int(p[3])
        return out

    def fired(self):
        out = {}
        for l in self.lines:
            if l.startswith("FC "):
                p = l.split()
                out[(p[1], p[2])] = out.get((p[1], p[2]), 0) + int(p[3])
        return out

    def violations(self):
        return [l[2:] for l in self.lines if l.startswith("V ")]

    def sched(self):
        for l in self.lines:
            if l.startswith("S "):
                return dict(kv.split("=") for kv in l[2:].split())
        return {}

    def probes(self):
        return {l.split()[1]: int(l.split()[2]) for l in self.lines if l.startswith("P ")}


class Result:
    __slots__ = ("rc", "sig", "stdout", "stderr", "trace", "timeout", "wall")

    def __init__(self):
        self.rc = None; self.sig = None; self.stdout = b""; self.stderr = b""; self.trace = Trace(b"")
        self.timeout = False; self.wall = 0.0

    def verdict(self):
        if self.timeout:
            return "timeout"
        if self.sig is not None:
            return "signal:%d" % self.sig
        return "exit:%d" % self.rc


def run_sim(binary, argv, plan=None, cwd=None, stdin=None, env=None, timeout=120, cpu=20,
            stdout_path=None, trace_size=None, scratch=None, umask=None):
    """Run one simulated process. plan: text or None (no plan = pass-through)."""
    e = {"PATH": "/usr/bin:/bin", "LC_ALL": "C", "TZ": "UTC", "HOME": "/nonexistent"}
    if env:
        e.update(env)
    e["VERIF_CPU_LIMIT"] = str(cpu)
    # the CPU limit is the termination bound (and the scheduler reports a deadlock itself); the wall clock limit only catches a process
    # blocked in a real system call, and must not fire because the machine is busy with other checks
    timeout = max(timeout, 12 * cpu, 240)
    tmpd = scratch or cwd or SCRATCH_ROOT
    tracep = None
    if plan is not None:
        tag = "%d-%d" % (os.getpid(), next(_scratch_n))
        planp = os.path.join(tmpd, ".plan-" + tag)
        tracep = os.path.join(tmpd, ".trace-" + tag)
        with open(planp, "w") as f:
            f.write(plan)
        e["VERIF_PLAN"] = planp
        e["VERIF_TRACE"] = tracep
        if trace_size:
            e["VERIF_TRACESIZE"] = str(trace_size)
    r = Result()
    t0 = time.time()
    fin = open(stdin, "rb") if isinstance(stdin, str) else subprocess.DEVNULL
    fout = open(stdout_path, "wb") if stdout_path else subprocess.PIPE
    try:
        p = subprocess.Popen([binary] + list(argv), cwd=cwd, env=e, stdin=fin, stdout=fout,
                             stderr=subprocess.PIPE, start_new_session=True,
                             preexec_fn=(lambda: os.umask(umask)) if umask is not None else None)
        try:
            out, err = p.communicate(timeout=timeout)
        except subprocess.TimeoutExpired:
            try:
                os.killpg(p.pid, signal.SIGKILL)
            except ProcessLookupError:
                pass
            out, err = p.communicate()
            r.timeout = True
        r.stdout = out or b""
        r.stderr = err or b""
        if p.returncode < 0:
            r.sig = -p.returncode
            if r.sig == signal.SIGXCPU:
                r.timeout = True
        else:
            r.rc = p.returncode
    finally:
        if fin is not subprocess.DEVNULL:
            fin.close()
        if stdout_path:
            fout.close()
    r.wall = time.time() - t0
    if tracep:
        try:
            with open(tracep, "rb") as f:
                r.trace = Trace(f.read())
        except OSError:
            pass
        for x in (planp, tracep):
            try:
                os.unlink(x)
            except OSError:
                pass
    return r


def sha256_file(path):
    h = hashlib.sha256()
    try:
        with open(path, "rb") as f:
            for b in iter(lambda: f.read(1 << 20), b""):
                h.update(b)
    except OSError:
        return None
    return h.hexdigest()


# ---------------------------------------------------------------- parallel map
def _init_worker():
    signal.signal(signal.SIGINT, signal.SIG_IGN)


def pmap(fn, items, workers=None, chunksize=1):
    items = list(items)
    workers = min(workers or NWORKERS, max(1, len(items)))
    if workers <= 1 or os.environ.get("VERIF_SERIAL"):
        return [fn(x) for x in items]
    with mp.get_context("fork").Pool(workers, initializer=_init_worker) as pool:
        return pool.map(fn, items, chunksize)


def pmap_unordered(fn, items, workers=None):
    items = list(items)
    workers = min(workers or NWORKERS, max(1, len(items)))
    if workers <= 1 or os.environ.get("VERIF_SERIAL"):
        for x in items:
            yield fn(x)
        return
    with mp.get_context("fork").Pool(workers, initializer=_init_worker) as pool:
        for r in pool.imap_unordered(fn, items):
            yield r


# ---------------------------------------------------------------- known findings
KNOWN_PATH = os.path.join(VERIF, "known_findings.txt")


def load_known(prop):
    """open findings for a property: list of (key, text)"""
    out = []
    if not os.path.exists(KNOWN_PATH):
        return out
    for line in open(KNOWN_PATH):
        line = line.strip()
        m = re.match(r"open:\s+property=(\S+)\s+key=(\S+)\s+(.*)", line)
        if m and m.group(1) == prop:
            out.append((m.group(2), m.group(3)))
    return out


# ---------------------------------------------------------------- reporting
class Report:
    """Collects violations of one check run, applies known findings, writes evidence, sets exit code."""

    def __init__(self, prop, level="exploration"):
        self.prop = prop
        self.level = level
        self.t0 = time.time()
        self.violations = []     # (key, text, replay_path)
        self.known_hit = {}
        self.harness_errors = []
        self.known = load_known(prop)
        self.cov = {}
        self.assumptions = []

    def violation(self, key, text, replay):
        """key: specific identity of the finding (matched against known_findings.txt)."""
        for k, what in self.known:
            if k == key:
                self.known_hit[k] = what
                return False
        self.violations.append((key, text, replay))
        return True

    def harness_error(self, text):
        self.harness_errors.append(text)

    def write_replay(self, name, spec):
        d = os.path.join(OUT, "replays", self.prop)
        os.makedirs(d, exist_ok=True)
        body = json.dumps(spec, indent=1, sort_keys=True)
        p = os.path.join(d, "%s-%s.json" % (name, hashlib.sha256(body.encode()).hexdigest()[:12]))
        with open(p, "w") as f:
            f.write(body)
        return p

    def finish(self, coverage, assumptions=None):
        wall = time.time() - self.t0
        cov = dict(coverage)
        cov.setdefault("known_findings_matched", sorted(self.known_hit))
        ev = {
            "property_id": self.prop, "tier": tier() if tier() in ("quick", "thorough") else "quick",
            "seed": master_seed(), "level": self.level, "coverage": cov,
            "assumptions": assumptions or [], "wall_s": round(wall, 2), "violations": len(self.violations),
        }
        if wall > 0 and "evaluations" in cov:
            cov.setdefault("runs_per_hour", int(cov["evaluations"] / wall * 3600))
        os.makedirs(EVID, exist_ok=True)
        with open(os.path.join(EVID, self.prop + ".json"), "w") as f:
            json.dump(ev, f, indent=1, sort_keys=True, default=str)
            f.write("\n")
        for k, what in sorted(self.known_hit.items()):
            print("KNOWN-FINDING: property=%s %s [key=%s]" % (self.prop, what, k))
        seen = set()
        for key, text, replay in self.violations:
            if key in seen:
                continue
            seen.add(key)
            print("VIOLATION property=%s replay=%s" % (self.prop, replay))
            print("  key=%s %s" % (key, text))
        for h in self.harness_errors[:10]:
            print("HARNESS-ERROR property=%s %s" % (self.prop, h))
        print("[%s] %s tier=%s seed=%d evaluations=%s distinct_nontrivial=%s violations=%d known=%d wall=%.1fs" % (
            self.prop, "FAIL" if self.violations else "ok", tier(), master_seed(), cov.get("evaluations"),
            cov.get("distinct_nontrivial"), len(seen), len(self.known_hit), wall))
        sys.stdout.flush()
        if self.violations:
            return 1
        if self.harness_errors:
            return 2
        return 0


def greedy_shrink(spec, candidates, still_fails, budget=300):
    """Generic minimiser: candidates(spec) yields simpler specs; keep one as soon as it still fails
    (same violation class); restart from it. Bounded by `budget` re-runs."""
    runs = 0
    progress = True
    while progress and runs < budget:
        progress = False
        for cand in candidates(spec):
            if runs >= budget:
                break
            runs += 1
            if still_fails(cand):
                spec = cand
                progress = True
                break
    return spec, runs


def ddmin(items, fails, budget=200):
    """classic delta debugging over a list; fails(sublist) -> bool. Returns a 1-minimal failing sublist
    (within budget re-runs)."""
    items = list(items)
    n = 2
    runs = 0
    while len(items) >= 2 and runs < budget:
        chunk = max(1, len(items) // n)
        subsets = [items[i:i + chunk] for i in range(0, len(items), chunk)]
        reduced = False
        for i, sub in enumerate(subsets):
            comp = [x for j, s2 in enumerate(subsets) if j != i for x in s2]
            runs += 1
            if fails(comp):
                items = comp
                n = max(n - 1, 2)
                reduced = True
                break
            if runs >= budget:
                break
        if not reduced:
            if n >= len(items):
                break
            n = min(len(items), n * 2)
    if len(items) == 1 and runs < budget:
        runs += 1
        if fails([]):
            items = []
    return items, runs
