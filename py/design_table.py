"""prints the 'checks as built' table of DESIGN.md 11.2 from the evidence files of the last runs"""
import json, os, sys
VERIF = os.path.dirname(os.path.dirname(os.path.abspath(__file__)))
rows = []
for f in sorted(os.listdir(os.path.join(VERIF, "evidence"))):
    d = json.load(open(os.path.join(VERIF, "evidence", f)))
    c = d["coverage"]
    lib = c.get("library_level_stage", {})
    rows.append("| %s | %s | %s | %s | %s | %.0f s | %s |" % (d["property_id"], d["level"], d["tier"], c.get("evaluations"), c.get("distinct_nontrivial"), d["wall_s"],
                                                      ("%d runs of blockproc-sim" % lib["runs"]) if lib else ""))
print("| id | level | tier | evaluations | distinct non-trivial | wall | of which library level |\n|---|---|---|---|---|---|---|")
print("\n".join(rows))
