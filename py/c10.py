"""C10 — reader answers depend only on image and query, never on earlier queries.

reader-sim (scn/reader.c): one set of libsquashfs reader objects over an in-memory sqfs_file_t gets
seeded histories of API calls (get inode by reference incl. off-by-one / other block / beyond table,
list directory, resolve path / inode number, positional read straddling block and fragment
boundaries, get_block, get_fragment, stream read, xattr get_desc/seek/read_key/read_value/read_all,
id lookup, raw meta reader seek+read in and out of range, stream == read == blocks+fragment),
with repeats, under transient read_at failures (EIO at the k-th call) and one allocation failure.
Reference model: the same call on freshly created readers, memoised. Images: valid ones (store mode
and real compressors, several metadata blocks) and persistently damaged ones (C05's mutations).
"""
import os, sys, json, re, subprocess
from common import *
import vfbuild, c05, sqfsdec, treegen

PROP = "C10"


def make_images(bdir, seed, cd, ndamaged, bigmeta=False):
    r = rng(seed, "c10img")
    store = r.random() < 0.5 or bigmeta
    # several metadata blocks: many inodes / directory entries
    ents = treegen.gen_tree(r, bs=4096, nfiles=r.choice([8, 14]), ndirs=r.choice([3, 6]), specials=True, xattrs=True, hardlinks=True,
                            big=r.random() < 0.5, bigdir=r.choice([300, 600]) if not bigmeta else 2600, bigdir_dense=r.random() < 0.3 and not bigmeta)
    if seed >> 63:
        # item kind "hole variants" (marked in the seed so a replay rebuilds the same image): a few files made of the same stored blocks
        # with zero blocks at different places - the block writer's duplicate detection gives them one and the same start location, so
        # whatever a reader remembers per start location belongs to several different block lists
        ents = treegen.gen_tree(r, bs=4096, nfiles=3, ndirs=1, specials=False, xattrs=False, hardlinks=False)
        for j in range(r.choice([2, 3])):
            blocks = [r.randbytes(4096) for _ in range(r.choice([3, 4, 6]))]
            tail = r.randbytes(r.choice([0, 0, 700]))
            for v in range(r.choice([3, 4])):
                seq = list(blocks)
                for _ in range(0 if v == 0 else r.choice([1, 1, 2, 3])):
                    seq.insert(r.randrange(len(seq) + 1), b"\0" * 4096)
                ents.append(treegen.Entry(b"hv%d_%d" % (j, v), treegen.FILE, content=b"".join(seq) + tail, mode=0o644, uid=0, gid=0, mtime=3))
    ents = [e for e in ents if treegen.packfile_representable(e)]
    treegen.emit_packfile(ents, cd)
    treegen.emit_xattr_file(ents, cd)
    comp = r.choice(["gzip", "xz", "lz4", "zstd"])
    argv = ["-c", comp, "-b", "4096", "-q", "-j", "1", "-F", "pack.txt", "-D", ".", "-A", "xattr.txt"]
    if r.random() < 0.6:
        argv.append("-e")
    notail = r.random() < 0.4
    if notail:
        argv.append("-T")           # short last data blocks instead of fragments
    rr = run_sim(os.path.join(bdir, "plain", "sim-gensquashfs"), argv + ["valid.sqfs"], cwd=cd, plan="seed 1\nsched rr\n" + ("store 1\n" if store else ""))
    if rr.rc != 0:
        raise RuntimeError("image build failed: %s" % rr.stderr[-200:])
    data = open(os.path.join(cd, "valid.sqfs"), "rb").read()
    img = sqfsdec.decode(data, want_content=False)
    images = [("valid.sqfs", True, None)]
    fields = [f for f in img.fields if f[1] + f[2] <= len(data)]
    for i in range(ndamaged):
        mr = rng(seed, "dmg", i)
        bad, desc = c05.mutate(mr, data, fields) if fields else (data, [])
        sizes = [f for f in fields if f[0].endswith(".file_size") and int.from_bytes(data[f[1]:f[1] + f[2]], "little") % 4096]
        if sizes and i % 3 == 2:
            # a size field that claims a little more than the last (short) block or the tail end holds: same block count, so the inode
            # still parses, but reads now reach bytes behind the unpacked data
            sizes.sort(key=lambda f: -int.from_bytes(data[f[1]:f[1] + f[2]], "little"))
            fname, off, ln = mr.choice(sizes[:6])           # one of the larger files: the readers' data queries prefer those
            old = int.from_bytes(data[off:off + ln], "little")
            new = old + mr.choice([1, 100, (-old) % 4096])
            b = bytearray(data)
            b[off:off + ln] = new.to_bytes(ln, "little")
            bad, desc = bytes(b), ["%s @%d: %d -> %d" % (fname, off, old, new)]
        names = [f for f in fields if f[0].endswith(".name") and f[2] >= 3]
        if names and i % 3 == 1:
            # an entry name with a NUL byte in the middle: C string handling anywhere between the image and the caller's path now
            # sees a shorter name than the entry's length field says
            fname, off, ln = mr.choice(names)
            pos = off + mr.randrange(1, ln - 1)
            b = bytearray(data)
            old = b[pos]
            b[pos] = 0
            bad, desc = bytes(b), ["%s byte @%d: %#x -> 0x0" % (fname, pos, old)]
        name = "damaged%d.sqfs" % i
        with open(os.path.join(cd, name), "wb") as f:
            f.write(bad)
        images.append((name, False, desc))
    return images, {"store": store, "comp": comp, "entries": len(ents), "bytes": len(data), "notail": notail}


def parse_out(out):
    viols, stat = [], {}
    for l in out.splitlines():
        if l.startswith("VIOL "):
            m = re.match(r"VIOL hist=(\d+) index=(\d+) why=(\S+) ops=(\S+) fails=(\S*) afail=(\d+)", l)
            if m:
                viols.append({"hist": int(m.group(1)), "index": int(m.group(2)), "why": m.group(3), "ops": m.group(4), "fails": m.group(5), "afail": m.group(6)})
        elif l.startswith("STAT "):
            stat = dict(kv.split("=") for kv in l[5:].split())
    return viols, stat


def run_hist(binary, image, valid, ops, fails, afail):
    env = dict(os.environ)
    if valid:
        env["SCN_VALID_IMAGE"] = "1"
    p = subprocess.run([binary, "hist", image, ops, fails or "0", str(afail)], stdout=subprocess.PIPE, stderr=subprocess.PIPE, env=env, timeout=300)
    m = re.search(r"RESULT viol=(\d+) index=(\d+) why=(\S*) agg=(\w+)", p.stdout.decode(errors="replace"))
    return (int(m.group(1)), int(m.group(2)), m.group(3), m.group(4), p.stdout.decode(errors="replace")) if m else (None, None, "exit:%d" % p.returncode, None, p.stderr.decode(errors="replace")[-800:])


def work(a):
    bdir, seed, nhist, ndamaged, histlen, variant = a
    res = {"viol": [], "err": None, "case": {"seed": seed}, "stat": {}, "images": 0, "crash": []}
    try:
        with Scratch("c10") as cd:
            images, info = make_images(bdir, seed, cd, ndamaged)
            res["case"].update(info)
            binary = os.path.join(bdir, variant, "scn-reader")
            for k, (name, valid, desc) in enumerate(images):
                env = dict(os.environ)
                if valid:
                    env["SCN_VALID_IMAGE"] = "1"
                n = nhist if valid else max(20, nhist // 6)
                p = subprocess.run([binary, "run", os.path.join(cd, name), str(derive(seed, "h", k) >> 1), "0", str(n), str(histlen)],
                                   stdout=subprocess.PIPE, stderr=subprocess.PIPE, env=env, timeout=1200)
                out = p.stdout.decode(errors="replace")
                res["images"] += 1
                if p.returncode != 0:
                    res["crash"].append({"image": name, "damage": desc, "rc": p.returncode, "stderr": p.stderr.decode(errors="replace")[-1500:], "k": k})
                    continue
                v, st = parse_out(out)
                for x in v[:3]:
                    x.update(image=name, valid=valid, damage=desc, k=k)
                    res["viol"].append(x)
                for key, val in st.items():
                    try:
                        res["stat"][key] = res["stat"].get(key, 0) + int(val)
                    except ValueError:
                        pass
    except Exception as e:
        import traceback
        res["err"] = "%s: %s %s" % (type(e).__name__, e, traceback.format_exc()[-300:])
    return res


def valgrind_work(a):
    """uninitialised reads make answers depend on what ran before (stack / heap leftovers): let memcheck look at some histories"""
    bdir, seed, nhist = a
    res = {"errors": [], "hist": 0, "err": None, "seed": seed}
    try:
        with Scratch("c10v") as cd:
            images, info = make_images(bdir, seed, cd, 2)
            for k, (name, valid, desc) in enumerate(images):
                p = subprocess.run(["valgrind", "-q", "--error-exitcode=79", "--track-origins=no", os.path.join(bdir, "plain", "scn-reader"), "run",
                                    os.path.join(cd, name), str(derive(seed, "vg", k) >> 1), "0", str(nhist), "25"],
                                   stdout=subprocess.PIPE, stderr=subprocess.PIPE, timeout=1500)
                res["hist"] += nhist
                if p.returncode == 79 or b"== " in p.stderr:
                    err = p.stderr.decode(errors="replace")
                    m = re.search(r"==\d+== (.*)\n==\d+==    at 0x[0-9A-F]+: (\w+)", err)
                    res["errors"].append({"k": k, "image": name, "what": (m.group(1) if m else "memcheck error"), "where": (m.group(2) if m else "?"),
                                          "stderr": err[:1500]})
    except Exception as e:
        res["err"] = "%s: %s" % (type(e).__name__, e)
    return res


def minimise(binary, image, valid, v):
    """shrink a diverging history: keep the diverging call last, drop earlier calls (ddmin), drop faults"""
    ops = v["ops"].split(";")[:v["index"] + 1]
    last = ops[-1]
    why = v["why"]
    fails = [f for f in v["fails"].split(",") if f]
    afail = v["afail"]

    def fails_with(prefix, fl, af):
        r = run_hist(binary, image, valid, ";".join(prefix + [last]), ",".join(fl), af)
        return r[0] == 1 and r[2] == why and r[1] == len(prefix)

    prefix, n1 = ddmin(ops[:-1], lambda sub: fails_with(sub, fails, afail), 150)
    fl, n2 = ddmin(fails, lambda sub: fails_with(prefix, sub, afail), 20)
    if afail != "0" and fails_with(prefix, fl, "0"):
        afail = "0"
    return ";".join(prefix + [last]), ",".join(fl), afail, n1 + n2


def replay(spec, bdir=None):
    bdir = bdir or vfbuild.build()
    with Scratch("c10r") as cd:
        images, _ = make_images(bdir, spec["seed"], cd, spec["ndamaged"])
        name, valid, desc = images[spec["k"]]
        if spec.get("memcheck_in_context"):
            lo, hi, histlen = spec["context"]
            cmd = [os.path.join(bdir, "plain", "scn-reader"), "run", os.path.join(cd, name), str(derive(spec["seed"], "h", spec["k"]) >> 1), str(lo), str(hi), str(histlen)]
            vgp = subprocess.run(["valgrind", "-q", "--error-exitcode=79"] + cmd, stdout=subprocess.PIPE, stderr=subprocess.PIPE, timeout=3000)
            ok = vgp.returncode == 79 or b"== " in vgp.stderr
            print(vgp.stderr.decode(errors="replace")[:1200])
            print("replay: memcheck over histories %d..%d -> %s" % (lo, hi - 1, "REPRODUCED" if ok else "not reproduced"))
            return 1 if ok else 0
        r = run_hist(os.path.join(bdir, "plain", "scn-reader"), os.path.join(cd, name), valid, spec["ops"], spec["fails"], spec["afail"])
        ok = r[0] == 1 and r[2] == spec["why"]
        print(r[4][-1500:])
        print("replay: %s expected %s -> %s" % (r[2], spec["why"], "REPRODUCED" if ok else "not reproduced"))
        return 1 if ok else 0


def main():
    t = tier()
    seed = master_seed()
    rep = Report(PROP, "exploration")
    bdir = vfbuild.build()
    nimg, nhist, ndamaged, histlen = (32, 500, 6, 40) if t == "quick" else (400, 5000, 24, 120)
    items = [(bdir, derive(seed, "c10", i) >> 1, nhist, ndamaged, histlen, "asan" if i % 4 == 3 else "plain") for i in range(nimg)]
    items += [(bdir, (derive(seed, "c10hv", i) >> 1) | (1 << 63), nhist, 2, histlen, "asan" if i % 4 == 3 else "plain") for i in range(4 if t == "quick" else 24)]
    if os.environ.get("VERIF_ONLY") == "holevariants":      # development aid: only the hole-variant items
        items = [x for x in items if x[1] >> 63]
    results = list(pmap_unordered(work, items))
    vg = pmap(valgrind_work, [(bdir, derive(seed, "c10vg", i) >> 1, 25 if t == "quick" else 200) for i in range(4 if t == "quick" else 32)])
    stat = {}
    for r in results:
        if r["err"]:
            rep.harness_error(r["err"])
        for k, v in r["stat"].items():
            stat[k] = stat.get(k, 0) + v
    seen = {}
    for r in results:
        for v in r["viol"]:
            seen.setdefault("%s:%s" % ("valid-image" if v["valid"] else "damaged-image", v["why"]), (r, v))
        for c in r["crash"]:
            m = re.search(r"(AddressSanitizer: [\w-]+|runtime error: [\w ]+)", c["stderr"])
            f = re.search(r"#\d+ 0x[0-9a-f]+ in (\w+) /repo", c["stderr"])
            seen.setdefault("api-crash:%s:%s" % ((m.group(1) if m else "exit%d" % c["rc"]).replace(" ", "-")[:40], f.group(1) if f else "?"), (r, dict(c, crash=True)))
    for g in vg:
        if g["err"]:
            rep.harness_error(g["err"])
        for e in g["errors"]:
            key = "memcheck:%s:%s" % (e["where"], e["what"].replace(" ", "-")[:50])
            if key not in seen:
                spec = {"property": PROP, "memcheck": True, "seed": g["seed"], "k": e["k"], "stderr": e["stderr"]}
                rep.violation(key, "valgrind memcheck on reader histories over %s: %s in %s" % (e["image"], e["what"], e["where"]), rep.write_replay("c10", spec))
                seen[key] = None
    for key, (r, v) in sorted((k, x) for k, x in seen.items() if x is not None):
        if v.get("crash"):
            spec = {"property": PROP, "seed": r["case"]["seed"], "ndamaged": ndamaged, "k": v["k"], "crash": True, "stderr": v["stderr"], "damage": v["damage"]}
            rep.violation(key, "reader API run on image %s (%s) ended with exit %d: %s" % (v["image"], v["damage"], v["rc"], v["stderr"][-200:].replace("\n", " ")), rep.write_replay("c10", spec))
            continue
        with Scratch("c10g") as cd:
            images, _ = make_images(bdir, r["case"]["seed"], cd, ndamaged)
            name, valid, desc = images[v["k"]]
            binary = os.path.join(bdir, "plain", "scn-reader")
            img = os.path.join(cd, name)
            a = run_hist(binary, img, valid, v["ops"], v["fails"], v["afail"])
            b = run_hist(binary, img, valid, v["ops"], v["fails"], v["afail"])
            if a[0] != 1 or a[2] != v["why"] or a[3] != b[3]:
                # the divergence needs the histories that ran before it in the same process: answers that depend on leftovers in memory.
                # Re-run that stretch in context, twice, and under memcheck; an uninitialised / out-of-bounds read there is the finding.
                lo, hi = max(0, v.get("hist", 0) - 8), v.get("hist", 0) + 1
                master = derive(r["case"]["seed"], "h", v["k"]) >> 1
                cmd = [binary, "run", img, str(master), str(lo), str(hi), str(histlen)]
                c1 = subprocess.run(cmd, stdout=subprocess.PIPE, stderr=subprocess.PIPE, timeout=1200).stdout
                c2 = subprocess.run(cmd, stdout=subprocess.PIPE, stderr=subprocess.PIPE, timeout=1200).stdout
                vgp = subprocess.run(["valgrind", "-q", "--error-exitcode=79"] + cmd, stdout=subprocess.PIPE, stderr=subprocess.PIPE, timeout=3000)
                if b"VIOL hist=%d " % v.get("hist", -1) in c1 and c1 == c2 and (vgp.returncode == 79 or b"== " in vgp.stderr):
                    err = vgp.stderr.decode(errors="replace")
                    m = re.search(r"==\d+== (.*)\n==\d+==    at 0x[0-9A-F]+: (\w+)", err)
                    what, where = (m.group(1), m.group(2)) if m else ("memcheck error", "?")
                    spec = {"property": PROP, "seed": r["case"]["seed"], "ndamaged": ndamaged, "k": v["k"], "image": v["image"], "damage": v["damage"],
                            "context": [lo, hi, histlen], "why": v["why"], "memcheck_in_context": True, "stderr": err[:1500]}
                    rep.violation("context-dependent:%s:%s:%s" % (v["why"].split(":")[0], where, re.sub(r"\W+", "-", what)[:50]),
                                  "histories %d..%d on %s (%s): %s in %s; the divergence %s only shows after the preceding histories ran in the same process" % (
                                      lo, hi - 1, v["image"], v["damage"], what, where, v["why"]), rep.write_replay("c10", spec))
                    continue
                rep.harness_error("divergence %s did not reproduce identically (%s / %s): seed=%s k=%s image=%s damage=%s hist=%s ops=%s fails=%s afail=%s" % (
                    key, a[2], b[2], r["case"]["seed"], v["k"], v["image"], v["damage"], v.get("hist"), v["ops"], v["fails"], v["afail"]))
                continue
            ops, fails, afail, nr = minimise(binary, img, valid, v)
            final = run_hist(binary, img, valid, ops, fails, afail)
        spec = {"property": PROP, "seed": r["case"]["seed"], "ndamaged": ndamaged, "k": v["k"], "image": v["image"], "damage": v["damage"],
                "ops": ops, "fails": fails, "afail": afail, "why": v["why"], "minimise_runs": nr, "history": final[4][-1200:]}
        rep.violation(key, "history of %d calls (read_at failures at %s, alloc failure at %s) on %s: %s" % (
            len(ops.split(";")), fails or "-", afail, v["image"], v["why"]), rep.write_replay("c10", spec))
    cov = {
        "evaluations": stat.get("ops", 0),
        "distinct_nontrivial": stat.get("hist", 0),
        "rule": "one evaluation = one reader API call inside a history, compared with the same call on fresh readers; distinct non-trivial = "
                "histories (each has its own seed; >= 3 calls, with repeats of earlier calls)",
        "samples": [r["case"] for r in results[:3]],
        "images": sum(r["images"] for r in results),
        "faults_fired": {"transient_read_at_failures_planned": stat.get("io_faults", 0), "allocation_failures_planned": stat.get("alloc_faults", 0),
                         "calls_hit_by_a_fault": stat.get("hit_ops", 0), "hit_calls_that_failed": stat.get("hit_failed", 0),
                         "hit_calls_that_still_succeeded_with_reference_payload": stat.get("hit_ok", 0)},
        "calls_by_kind": {k[2:]: v for k, v in stat.items() if k.startswith("k_")},
        "calls_ok": stat.get("ok_calls", 0), "calls_error": stat.get("err_calls", 0),
        "fresh_reader_sets_built_for_reference": stat.get("fresh_sets", 0),
        "histories_under_valgrind_memcheck": sum(g["hist"] for g in vg),
        "components_real": ["libsquashfs: dir reader, data reader, xattr reader, id table, fragment table, meta reader, decompressors"],
        "components_simulated": ["sqfs_file_t (in-memory, transient EIO)", "allocator (k-th allocation fails)", "stored bytes (damaged images)"],
    }
    if stat.get("hit_ops", 0) == 0 or stat.get("ok_calls", 0) == 0:
        rep.harness_error("insufficient reach: %s" % stat)
    return rep.finish(cov, ["'.'/'..' generation of a SQFS_DIR_READER_DOT_ENTRIES reader is documented to depend on previously fetched inodes and is switched off",
                            "faults are injected into calls of the history, not into the construction of the reader objects"])


if __name__ == "__main__":
    sys.exit(main())
