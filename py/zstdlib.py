"""zstd through ctypes on the system libzstd (the zstd command line tool is not part of the base system here)."""
import ctypes, ctypes.util

_lib = ctypes.CDLL(ctypes.util.find_library("zstd") or "libzstd.so.1")
_lib.ZSTD_compressBound.restype = ctypes.c_size_t
_lib.ZSTD_compressBound.argtypes = [ctypes.c_size_t]
_lib.ZSTD_compress.restype = ctypes.c_size_t
_lib.ZSTD_compress.argtypes = [ctypes.c_char_p, ctypes.c_size_t, ctypes.c_char_p, ctypes.c_size_t, ctypes.c_int]
_lib.ZSTD_isError.restype = ctypes.c_uint
_lib.ZSTD_isError.argtypes = [ctypes.c_size_t]
_lib.ZSTD_createDStream.restype = ctypes.c_void_p
_lib.ZSTD_freeDStream.argtypes = [ctypes.c_void_p]
_lib.ZSTD_initDStream.argtypes = [ctypes.c_void_p]
_lib.ZSTD_initDStream.restype = ctypes.c_size_t


class _Buf(ctypes.Structure):
    _fields_ = [("ptr", ctypes.c_void_p), ("size", ctypes.c_size_t), ("pos", ctypes.c_size_t)]


_lib.ZSTD_decompressStream.restype = ctypes.c_size_t
_lib.ZSTD_decompressStream.argtypes = [ctypes.c_void_p, ctypes.POINTER(_Buf), ctypes.POINTER(_Buf)]


_lib.ZSTD_createCCtx.restype = ctypes.c_void_p
_lib.ZSTD_freeCCtx.argtypes = [ctypes.c_void_p]
_lib.ZSTD_CCtx_setParameter.restype = ctypes.c_size_t
_lib.ZSTD_CCtx_setParameter.argtypes = [ctypes.c_void_p, ctypes.c_int, ctypes.c_int]
_lib.ZSTD_compress2.restype = ctypes.c_size_t
_lib.ZSTD_compress2.argtypes = [ctypes.c_void_p, ctypes.c_char_p, ctypes.c_size_t, ctypes.c_char_p, ctypes.c_size_t]
ZSTD_c_compressionLevel, ZSTD_c_checksumFlag = 100, 201


def compress(data, level=3, checksum=True):
    """one frame, with the 32 bit content checksum the command line tool also writes by default"""
    bound = _lib.ZSTD_compressBound(len(data))
    out = ctypes.create_string_buffer(bound)
    cctx = _lib.ZSTD_createCCtx()
    try:
        _lib.ZSTD_CCtx_setParameter(cctx, ZSTD_c_compressionLevel, level)
        _lib.ZSTD_CCtx_setParameter(cctx, ZSTD_c_checksumFlag, 1 if checksum else 0)
        n = _lib.ZSTD_compress2(cctx, out, bound, data, len(data))
    finally:
        _lib.ZSTD_freeCCtx(cctx)
    if _lib.ZSTD_isError(n):
        raise ValueError("zstd compress failed")
    return out.raw[:n]


def decompress(blob):
    """streaming decompression of one or more concatenated frames; raises ValueError on corrupt / truncated input"""
    ds = _lib.ZSTD_createDStream()
    try:
        _lib.ZSTD_initDStream(ds)
        src = ctypes.create_string_buffer(blob, len(blob))
        inb = _Buf(ctypes.cast(src, ctypes.c_void_p), len(blob), 0)
        chunk = 1 << 17
        dst = ctypes.create_string_buffer(chunk)
        out = bytearray()
        last = 0
        while True:
            outb = _Buf(ctypes.cast(dst, ctypes.c_void_p), chunk, 0)
            r = _lib.ZSTD_decompressStream(ds, ctypes.byref(outb), ctypes.byref(inb))
            if _lib.ZSTD_isError(r):
                raise ValueError("zstd: corrupt stream")
            out += dst.raw[:outb.pos]
            last = r
            if inb.pos >= inb.size and (r == 0 or outb.pos < chunk):
                # all input consumed and either the frame is complete (r == 0, also when the output exactly filled the
                # buffer) or the decoder has nothing more to give
                break
        if last != 0:
            raise ValueError("zstd: truncated stream")
        return bytes(out)
    finally:
        _lib.ZSTD_freeDStream(ds)
