"""C09 — worker pool: FIFO, exactly-once, deadlock-free under every interleaving.

Engine: scn-pool (real lib/util/src/threadpool.c, real pthreads parked/released by the simos
scheduler). Search: seeded runs, each run = (workers, items, submitter program, failing item,
scheduler policy, spurious wake-ups, stalled thread, allocation / pthread_create fault).
Second stage: the block processor on top of the same pool with a failing compressor (scn-blockproc).
"""
import os, re, subprocess, sys, json
from common import *
import vfbuild, blockproc

PROP = "C09"


def _parse(out):
    viols, stats, samples = [], {}, []
    for line in out.splitlines():
        if line.startswith("VIOL "):
            m = re.match(r"VIOL idx=(\d+) kind=(.*?) spec: (.*?)(?: rec=([\d,]*))?$", line)
            if m:
                viols.append({"idx": int(m.group(1)), "kind": m.group(2).strip(), "spec": m.group(3).strip(),
                              "rec": m.group(4) or ""})
        elif line.startswith("STAT "):
            for kv in line[5:].split():
                k, v = kv.split("=")
                stats[k] = v
        elif line.startswith("SAMPLE "):
            samples.append(line[7:])
    return viols, stats, samples


def _chunk(args):
    binary, master, lo, hi, tierflag = args
    viols, agg, samples = [], {}, []
    cur = lo
    while cur < hi:
        p = subprocess.run([binary, "run", str(master), str(cur), str(hi), str(tierflag)],
                           stdout=subprocess.PIPE, stderr=subprocess.PIPE, timeout=3600)
        v, s, sm = _parse(p.stdout.decode(errors="replace"))
        viols += v
        samples += sm
        for k, val in s.items():
            if k == "agg":
                agg[k] = agg.get(k, "") + val
            else:
                agg[k] = agg.get(k, 0) + int(val)
        if p.returncode in (70, 74) and v:
            cur = v[-1]["idx"] + 1          # deadlocked / crashed run: continue behind it in a new process
        elif p.returncode == 0:
            break
        else:
            viols.append({"idx": cur, "kind": "harness-exit-%d" % p.returncode, "spec": "", "rec": "",
                          "stderr": p.stderr.decode(errors="replace")[-500:]})
            break
    return viols, agg, samples[:2]


def vclass(kind):
    return re.sub(r"\d+", "N", kind.split(" detail=")[0]).strip()


def run_spec(binary, spec):
    p = subprocess.run([binary, "spec", spec], stdout=subprocess.PIPE, stderr=subprocess.PIPE, timeout=120)
    out = p.stdout.decode(errors="replace")
    v, _, _ = _parse(out)
    m = re.search(r"RESULT viol=(\d+) dhash=([0-9a-f]+)", out)
    kind = v[0]["kind"] if v else None
    return {"rc": p.returncode, "kind": kind, "dhash": m.group(2) if m else None,
            "rec": v[0]["rec"] if v else ""}


def spec_dict(spec):
    d = {}
    for t in spec.split():
        if "=" in t:
            k, v = t.split("=", 1)
            d[k] = v
    return d


def spec_str(d):
    order = ["w", "n", "ops", "drain", "fail", "yields", "pol", "sticky", "spur", "pctd", "pcth", "stall", "seed",
             "afail", "cfail", "choices"]
    return " ".join("%s=%s" % (k, d[k]) for k in order if k in d and d[k] != "")


def candidates(d):
    """simpler variants of a pool spec"""
    d = dict(d)
    n = int(d["n"]); w = int(d["w"])
    ops = d.get("ops", "-")
    ops = "" if ops == "-" else ops
    # fewer workers
    if w > 1:
        c = dict(d); c["w"] = str(w - 1); yield c
    # drop an op
    for i in range(len(ops) - 1, -1, -1):
        c = dict(d); c["ops"] = (ops[:i] + ops[i + 1:]) or "-"; yield c
    # fewer items (only if the submit count allows)
    if n > 1 and ops.count("S") < n or n > 1:
        c = dict(d); c["n"] = str(n - 1)
        ys = d["yields"].split(",")[:n - 1]
        c["yields"] = ",".join(ys)
        if int(d["fail"]) >= n - 1:
            c["fail"] = str(n - 2) if int(d["fail"]) >= 0 else "-1"
        yield c
    if int(d["fail"]) > 0:
        c = dict(d); c["fail"] = str(int(d["fail"]) - 1); yield c
    ys = d["yields"].split(",")
    for i, y in enumerate(ys):
        if y != "0":
            c = dict(d); z = list(ys); z[i] = "0"; c["yields"] = ",".join(z); yield c
    for k, v0 in (("spur", "0"), ("stall", "0,0,0"), ("afail", "0"), ("cfail", "0"), ("drain", "0"), ("sticky", "0")):
        if d.get(k, v0) != v0:
            c = dict(d); c[k] = v0; yield c
    # schedule: shorter / simpler choice list (only in replay form)
    if d.get("pol") == "replay" and d.get("choices"):
        ch = d["choices"].split(",")
        for cut in (len(ch) // 2, len(ch) - 1):
            if 0 <= cut < len(ch):
                c = dict(d); c["choices"] = ",".join(ch[:cut]) or "0"; yield c
        for i in range(len(ch)):
            if ch[i] != "0":
                c = dict(d); z = list(ch); z[i] = "0"; c["choices"] = ",".join(z); yield c


def minimise(binary, v, budget=300):
    cls = vclass(v["kind"])
    d = spec_dict(v["spec"])
    # replay form: the recorded decisions replace the PRNG driven policy
    if v.get("rec"):
        r = dict(d); r["pol"] = "replay"; r["choices"] = v["rec"]
        res = run_spec(binary, spec_str(r))
        if res["kind"] and vclass(res["kind"]) == cls:
            d = r

    def fails(c):
        res = run_spec(binary, spec_str(c))
        return bool(res["kind"]) and vclass(res["kind"]) == cls

    d, runs = greedy_shrink(d, candidates, fails, budget)
    return d, runs


def replay(spec, bdir=None):
    if spec.get('engine') == 'scn-blockproc':
        return blockproc.replay(spec, bdir)
    bdir = bdir or vfbuild.build(variants=("plain",))
    binary = os.path.join(bdir, "plain", "scn-pool")
    res = run_spec(binary, spec["spec"])
    ok = bool(res["kind"]) and vclass(res["kind"]) == spec["class"]
    print("replay: kind=%s dhash=%s expected_class=%s -> %s" % (res["kind"], res["dhash"], spec["class"],
                                                               "REPRODUCED" if ok else "not reproduced"))
    return 1 if ok else 0


def main():
    t = tier()
    seed = master_seed()
    rep = Report(PROP, "exploration")
    bdir = vfbuild.build(variants=("plain", "asan"))
    binary = os.path.join(bdir, "plain", "scn-pool")
    asan = os.path.join(bdir, "asan", "scn-pool")
    total = 400_000 if t == "quick" else 24_000_000
    n_asan = 20_000 if t == "quick" else 400_000
    if os.environ.get("VERIF_RUNS"):
        total = int(os.environ["VERIF_RUNS"])
    nchunks = NWORKERS * (4 if t == "quick" else 16)
    step = (total + nchunks - 1) // nchunks
    tf = 0 if t == "quick" else 1
    work = [(binary, seed, i * step, min(total, (i + 1) * step), tf) for i in range(nchunks)]
    astep = (n_asan + NWORKERS - 1) // NWORKERS
    # the sanitized slice uses a different master seed stream so that it adds runs instead of repeating them
    work += [(asan, derive(seed, "asan") >> 1, i * astep, min(n_asan, (i + 1) * astep), tf) for i in range(NWORKERS)]
    viols, agg, samples = [], {}, []
    for v, a, s in pmap_unordered(_chunk, work):
        viols += v
        samples += s
        for k, val in a.items():
            if k == "agg":
                continue
            agg[k] = agg.get(k, 0) + val
    # one representative per violation class: gate (fresh process, same spec => same verdict), minimise, report
    byclass = {}
    for v in sorted(viols, key=lambda v: v["idx"]):
        byclass.setdefault(vclass(v["kind"]), v)
    for cls, v in sorted(byclass.items()):
        if cls.startswith("harness"):
            rep.harness_error("%s %s" % (cls, v.get("stderr", "")))
            continue
        a = run_spec(binary, v["spec"])
        b = run_spec(binary, v["spec"])
        if not a["kind"] or vclass(a["kind"]) != cls or a["dhash"] != b["dhash"]:
            rep.harness_error("violation %s at idx %d did not reproduce identically in a fresh process" % (cls, v["idx"]))
            continue
        v["rec"] = a["rec"] or v["rec"]
        d, runs = minimise(binary, v)
        final = run_spec(binary, spec_str(d))
        spec = {"property": PROP, "engine": "scn-pool", "class": cls, "spec": spec_str(d),
                "original_spec": v["spec"], "seed": seed, "idx": v["idx"], "kind": final["kind"],
                "minimise_runs": runs, "replay": "./vf replay <this file>"}
        path = rep.write_replay("pool", spec)
        key = "pool:" + cls
        rep.violation(key, "%s (minimised: %s)" % (v["kind"][:200], spec_str(d)[:300]), path)

    runs = agg.get("runs", 0)
    cov = {
        "evaluations": runs,
        "distinct_nontrivial": agg.get("nontrivial", 0),
        "rule": "one evaluation = one simulated pool life (create, submitter program, destroy) under one seeded schedule; "
                "distinct = distinct (workers, items, program, failing item, yields) x decision-sequence hash, counted per "
                "worker process with an exact hash set and summed (index ranges are disjoint, so specs differ across processes); "
                "non-trivial = at least one scheduling decision had >= 2 runnable threads",
        "samples": samples[:6],
        "scheduler_steps": agg.get("steps", 0),
        "decisions_with_choice": agg.get("decisions", 0),
        "distinct_interleavings": agg.get("distinct", 0),
        "distinct_traces_small_configs": {"1w_1i": agg.get("small_1x1", 0), "1w_2i": agg.get("small_1x2", 0),
                                          "2w_1i": agg.get("small_2x1", 0), "2w_2i": agg.get("small_2x2", 0)},
        "faults_fired": {"worker_failure_runs": agg.get("with_failure", 0), "spurious_wakeups": agg.get("spurious", 0),
                         "stalled_thread_skips": agg.get("stall_skips", 0), "calloc_null_in_submit": agg.get("alloc_fired", 0),
                         "pthread_create_failed_pools": agg.get("create_failed", 0)},
        "reach": {"dequeue_returned_item": agg.get("dq_item", 0), "dequeue_null_empty": agg.get("dq_null_empty", 0),
                  "dequeue_null_after_failure": agg.get("dq_null_failed", 0), "submit_refused": agg.get("submit_refused", 0),
                  "submitter_blocked_in_dequeue": agg.get("main_waits", 0), "deadlocks_detected": agg.get("deadlocks", 0)},
        "sanitized_runs": n_asan,
        "simulated_time": "logical: %d scheduler steps (the code has no timers)" % agg.get("steps", 0),
        "components_real": ["lib/util/src/threadpool.c", "glibc pthread_create/join (thread bodies)"],
        "components_simulated": ["mutex/condvar semantics and every scheduling choice (simos/sched.c)",
                                 "worker callback and submitter program (scn/pool.c)", "calloc/pthread_create faults"],
    }
    # minimum reach: a check that explored nothing must not pass silently
    need = {"dq_item": 1, "dq_null_empty": 1, "main_waits": 1, "spurious": 1, "with_failure": 1, "dq_null_failed": 0}
    for k, mn in need.items():
        if agg.get(k, 0) < mn:
            rep.harness_error("insufficient reach: %s=%s" % (k, agg.get(k, 0)))
    # library-level stage: the same components in-process, many more schedules per workload (scn/blockproc.c, py/blockproc.py)
    lib = blockproc.stage(rep, PROP, bdir, seed, t)
    cov["library_level_stage"] = lib
    cov["evaluations"] = cov.get("evaluations", 0) + lib["runs"]
    cov["distinct_nontrivial"] = cov.get("distinct_nontrivial", 0) + lib["runs_with_interleaving"]
    return rep.finish(cov, ["mutex/condvar/create/join/yield granularity is complete for code whose threads interact only "
                            "through those operations; data races between sync points are not observed",
                            "schedules are sampled (random, PCT, round-robin, starvation), not enumerated"])


if __name__ == "__main__":
    sys.exit(main())
