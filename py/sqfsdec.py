"""Independent SquashFS 4.0 decoder + validator, written from the on-disk format description
(doc/format.adoc); shares no code with libsquashfs. Used as the oracle for C01/C03/C04/C08/C14 and
as the field map that aims stored-byte faults (C05/C06).

decode(path_or_bytes) -> Image with
   .sb            superblock dict            .tree     {path(bytes): Node}
   .errors        decode errors (image is not readable)   .invalid   C03 invariant violations
   .fields        [(name, file_offset, length)] for metadata stored uncompressed
"""
import struct, zlib, lzma, ctypes, ctypes.util, os

MAGIC = 0x73717368
META_MAX = 8192
T_DIR, T_FILE, T_SLINK, T_BLK, T_CHR, T_FIFO, T_SOCK = 1, 2, 3, 4, 5, 6, 7
TYPE_NAMES = {1: "dir", 2: "file", 3: "slink", 4: "blk", 5: "chr", 6: "fifo", 7: "sock"}
FLAG_UNC_INODES, FLAG_UNC_DATA, FLAG_UNC_FRAGS, FLAG_NO_FRAGS, FLAG_ALWAYS_FRAGS, FLAG_DUPES, FLAG_EXPORT, \
    FLAG_UNC_XATTR, FLAG_NO_XATTR, FLAG_COMP_OPT, FLAG_UNC_IDS = 0x1, 0x2, 0x8, 0x10, 0x20, 0x40, 0x80, 0x100, 0x200, 0x400, 0x800
XATTR_PREFIX = {0: b"user.", 1: b"trusted.", 2: b"security."}

_lz4 = _zstd = None


def _load_libs():
    global _lz4, _zstd
    if _lz4 is None:
        try:
            _lz4 = ctypes.CDLL(ctypes.util.find_library("lz4") or "liblz4.so.1")
            _lz4.LZ4_decompress_safe.argtypes = [ctypes.c_char_p, ctypes.c_char_p, ctypes.c_int, ctypes.c_int]
        except OSError:
            _lz4 = False
    if _zstd is None:
        try:
            _zstd = ctypes.CDLL(ctypes.util.find_library("zstd") or "libzstd.so.1")
            _zstd.ZSTD_decompress.restype = ctypes.c_size_t
            _zstd.ZSTD_decompress.argtypes = [ctypes.c_char_p, ctypes.c_size_t, ctypes.c_char_p, ctypes.c_size_t]
            _zstd.ZSTD_isError.argtypes = [ctypes.c_size_t]
        except OSError:
            _zstd = False


class DecodeError(Exception):
    pass


_XZ_DICTS = []


def _xz_dict_size(data):
    """LZMA2 dictionary size announced in the (first) block header of an .xz stream, None when there is none to read"""
    try:
        if data[:6] != b"\xfd7zXZ\0":
            return None
        p = 12
        hsize = (data[p] + 1) * 4
        fl = data[p + 1]
        q = p + 2

        def vli(q):
            v = sh = 0
            while True:
                b = data[q]
                q += 1
                v |= (b & 0x7F) << sh
                sh += 7
                if not b & 0x80:
                    return v, q
        if fl & 0x40:
            _, q = vli(q)
        if fl & 0x80:
            _, q = vli(q)
        for _ in range((fl & 3) + 1):
            fid, q = vli(q)
            psz, q = vli(q)
            if fid == 0x21 and psz == 1:
                bits = data[q] & 0x3F
                return 0xFFFFFFFF if bits >= 40 else (2 | (bits & 1)) << (bits // 2 + 11)
            q += psz
            if q > p + hsize:
                break
    except IndexError:
        pass
    return None


def decompress(comp_id, data, maxout):
    if comp_id == 1:
        d = zlib.decompressobj()
        out = d.decompress(data, maxout + 1)
        if not d.eof:
            raise DecodeError("gzip: truncated/oversized block")
        if d.unused_data:
            raise DecodeError("gzip: trailing bytes in block")
    elif comp_id == 4:
        out = lzma.decompress(data, format=lzma.FORMAT_XZ)
        _XZ_DICTS.append(_xz_dict_size(data))
    elif comp_id == 2:
        # lzma-alone with the 8 byte size field replaced; squashfs stores props(5) + size(8, LE)
        out = lzma.decompress(data, format=lzma.FORMAT_ALONE)
    elif comp_id == 5:
        _load_libs()
        buf = ctypes.create_string_buffer(maxout)
        n = _lz4.LZ4_decompress_safe(data, buf, len(data), maxout)
        if n < 0:
            raise DecodeError("lz4: corrupt block")
        out = buf.raw[:n]
    elif comp_id == 6:
        _load_libs()
        buf = ctypes.create_string_buffer(maxout)
        n = _zstd.ZSTD_decompress(buf, maxout, data, len(data))
        if _zstd.ZSTD_isError(n):
            raise DecodeError("zstd: corrupt block")
        out = buf.raw[:n]
    else:
        raise DecodeError("unsupported compressor %d" % comp_id)
    if len(out) > maxout:
        raise DecodeError("block decompresses to more than %d bytes" % maxout)
    return out


class Node:
    __slots__ = ("path", "type", "mode", "uid", "gid", "mtime", "ino", "nlink", "target", "rdev", "size", "content",
                 "xattrs", "xattr_idx", "ref", "ext", "blocks", "blocks_start", "frag", "sparse", "children", "parent_ino",
                 "dir_start", "dir_offset", "dir_size", "index", "itype", "fpos")

    def __init__(self):
        for s in self.__slots__:
            setattr(self, s, None)

    def ident(self):
        return (TYPE_NAMES.get(self.type), self.mode, self.uid, self.gid, self.mtime)


class MetaStream:
    """Sequential reader over a chain of metadata blocks starting at table_start + block_off."""

    def __init__(self, img, table_start, limit):
        self.img = img
        self.base = table_start
        self.limit = limit      # first byte after the last block of this table
        self.cache = {}

    def block(self, off):
        """returns (data, stored_len_incl_header, uncompressed?, file_off)"""
        if off in self.cache:
            return self.cache[off]
        pos = self.base + off
        img = self.img
        if pos < 0 or pos + 2 > len(img.data):
            raise DecodeError("metadata block header at %d outside image" % pos)
        if self.limit is not None and pos >= self.limit:
            raise DecodeError("metadata block at %d beyond table end %d" % (pos, self.limit))
        hdr = struct.unpack_from("<H", img.data, pos)[0]
        size = hdr & 0x7FFF
        unc = bool(hdr & 0x8000)
        if size > META_MAX:
            img.invalid.append("meta: stored size %d > 8192 at %d" % (size, pos))
        if size == 0:
            raise DecodeError("metadata block of size 0 at %d" % pos)
        if pos + 2 + size > len(img.data):
            raise DecodeError("metadata block at %d runs past end of image" % pos)
        raw = img.data[pos + 2:pos + 2 + size]
        if unc:
            data = raw
        else:
            data = decompress(img.comp, raw, META_MAX)
            img.payload_fields.append(("meta", pos + 2, size))
            if len(data) < size and len(data) > 0:
                # a stored block must not be larger than its uncompressed form
                img.invalid.append("meta: compressed block at %d stores %d bytes for %d bytes of payload" % (pos, size, len(data)))
        if len(data) > META_MAX:
            img.invalid.append("meta: block at %d unpacks to %d > 8192" % (pos, len(data)))
        img.meta_blocks.setdefault(self.base, {})[off] = (size + 2, len(data), unc)
        r = (data, size + 2, unc, pos)
        self.cache[off] = r
        return r

    def read(self, off, inner, n):
        """read n bytes starting at (block off, inner offset); returns (bytes, new_off, new_inner, [file positions or None])"""
        out = bytearray()
        fpos = []
        while n > 0:
            data, stored, unc, pos = self.block(off)
            if inner > len(data):
                raise DecodeError("offset %d beyond metadata block of %d bytes" % (inner, len(data)))
            if inner == len(data):
                off += stored
                inner = 0
                continue
            take = min(n, len(data) - inner)
            out += data[inner:inner + take]
            if unc:
                fpos.extend(range(pos + 2 + inner, pos + 2 + inner + take))
            else:
                fpos.extend([None] * take)
            inner += take
            n -= take
        return bytes(out), off, inner, fpos


class Cursor:
    def __init__(self, ms, off, inner):
        self.ms, self.off, self.inner = ms, off, inner
        self.last_fpos = None

    def get(self, n):
        b, self.off, self.inner, fp = self.ms.read(self.off, self.inner, n)
        self.last_fpos = fp
        return b

    def unpack(self, fmt):
        b = self.get(struct.calcsize(fmt))
        return struct.unpack(fmt, b)

    def normalise(self):
        """if the cursor sits exactly at the end of a block, move it to the start of the next one"""
        data, stored, unc, pos = self.ms.block(self.off)
        if self.inner == len(data):
            self.off += stored
            self.inner = 0

    def fpos0(self):
        return self.last_fpos[0] if self.last_fpos else None


class Image:
    def __init__(self, data):
        self.data = data
        self.sb = {}
        self.errors = []
        self.invalid = []
        self.tree = {}
        self.fields = []
        self.meta_blocks = {}
        self.ids = []
        self.frags = []
        self.xattr_sets = []
        self.inodes_by_ref = {}
        self.inodes_by_num = {}
        self.export = None
        self.comp = 0
        self.comp_opts = None
        self.payload_fields = []  # (what, file offset, stored length) of every compressed block payload that was unpacked
        self.data_extents = []   # (start, end, what)
        self.loc_lists = []      # (table, start, end) of every lookup table's block location list
        self.struct_starts = set()

    def ok(self):
        return not self.errors


def _field(img, name, fpos, idx, length):
    if fpos and idx < len(fpos) and fpos[idx] is not None:
        img.fields.append((name, fpos[idx], length))


def _read_table(img, start, count, entsize, per_block, what, upper):
    """generic lookup table: at `start` a list of u64 block locations; blocks hold fixed size entries"""
    nblocks = (count + per_block - 1) // per_block
    if start + nblocks * 8 > len(img.data):
        raise DecodeError("%s table location list outside image" % what)
    locs = struct.unpack_from("<%dQ" % nblocks, img.data, start) if nblocks else ()
    out = []
    remaining = count
    prev = None
    for bi, loc in enumerate(locs):
        _field(img, "%s.loc[%d]" % (what, bi), [start + bi * 8], 0, 8)
        if loc >= start:
            img.invalid.append("%s: block location %d not before its location list %d" % (what, loc, start))
        if prev is not None and loc <= prev:
            img.invalid.append("%s: block locations not ascending" % what)
        prev = loc
        ms = MetaStream(img, 0, None)
        n = min(remaining, per_block)
        data, stored, unc, pos = ms.block(loc)
        if len(data) < n * entsize:
            raise DecodeError("%s table block %d too short (%d < %d)" % (what, bi, len(data), n * entsize))
        if len(data) != n * entsize:
            img.invalid.append("%s: table block %d has %d bytes, expected %d" % (what, bi, len(data), n * entsize))
        for i in range(n):
            out.append(data[i * entsize:(i + 1) * entsize])
            if unc:
                img.fields.append(("%s[%d]" % (what, len(out) - 1), pos + 2 + i * entsize, entsize))
        img.data_extents.append((loc, loc + stored, what + "-meta"))
        remaining -= n
    img.data_extents.append((start, start + nblocks * 8, what + "-locs"))
    img.loc_lists.append((what, start, start + nblocks * 8))
    img.struct_starts.add(start)
    if locs:
        img.struct_starts.add(locs[0])
    return out


def decode(src, want_content=True, max_nodes=200000):
    data = src if isinstance(src, (bytes, bytearray)) else open(src, "rb").read()
    img = Image(bytes(data))
    del _XZ_DICTS[:]
    try:
        _decode(img, want_content, max_nodes)
        if img.comp == 4:
            # the one compressor whose options a reader (the kernel) acts on: it allocates the announced dictionary - the option block's,
            # or max(block size, 8 KiB) without one - and refuses a stream that asks for more
            if img.comp_opts is not None and len(img.comp_opts) >= 8:
                announced = struct.unpack_from("<I", img.comp_opts, 0)[0]
                n = announced
                if n < 8192 or not (n & (n - 1) == 0 or (n % 3 == 0 and (n // 3) & (n // 3 - 1) == 0)):
                    img.invalid.append("sb: XZ options announce a dictionary of %d bytes (must be >= 8 KiB and 2^n or 2^n + 2^(n+1))" % n)
            else:
                announced = max(img.sb["block_size"], 8192)
            big = [x for x in _XZ_DICTS if x is not None and x > announced]
            if big:
                img.invalid.append("xz: %d of %d streams ask for a dictionary of up to %d bytes, the image announces %d (%s)" % (
                    len(big), len(_XZ_DICTS), max(big), announced, "option block" if img.comp_opts is not None else "no option block: max(block size, 8 KiB)"))
    except DecodeError as e:
        img.errors.append(str(e))
    except (struct.error, lzma.LZMAError, zlib.error, IndexError, OverflowError, MemoryError, ValueError) as e:
        img.errors.append("%s: %s" % (type(e).__name__, e))
    return img


def _decode(img, want_content, max_nodes):
    d = img.data
    if len(d) < 96:
        raise DecodeError("file shorter than a superblock")
    names = ["magic", "inode_count", "mod_time", "block_size", "frag_count", "comp", "block_log", "flags", "id_count",
             "vmaj", "vmin", "root", "bytes_used", "id_table", "xattr_table", "inode_table", "dir_table", "frag_table",
             "export_table"]
    vals = struct.unpack_from("<IIIIIHHHHHHQQQQQQQQ", d, 0)
    sb = dict(zip(names, vals))
    img.sb = sb
    off = 0
    for n, sz in zip(names, [4, 4, 4, 4, 4, 2, 2, 2, 2, 2, 2, 8, 8, 8, 8, 8, 8, 8, 8]):
        img.fields.append(("sb." + n, off, sz))
        off += sz
    if sb["magic"] != MAGIC:
        raise DecodeError("bad magic")
    if sb["vmaj"] != 4 or sb["vmin"] != 0:
        raise DecodeError("unsupported version %d.%d" % (sb["vmaj"], sb["vmin"]))
    bs = sb["block_size"]
    if bs < 4096 or bs > 1048576 or bs & (bs - 1):
        raise DecodeError("bad block size %d" % bs)
    if (1 << sb["block_log"]) != bs:
        raise DecodeError("block_log %d does not match block size %d" % (sb["block_log"], bs))
    img.comp = sb["comp"]
    if img.comp not in (1, 2, 4, 5, 6):
        raise DecodeError("unsupported compressor id %d" % img.comp)
    NONE = 0xFFFFFFFFFFFFFFFF
    bu = sb["bytes_used"]
    if bu > len(d):
        raise DecodeError("bytes_used %d larger than file %d" % (bu, len(d)))
    if bu < 96:
        raise DecodeError("bytes_used %d too small" % bu)
    # ---- C03: superblock vs layout
    if any(b != 0 for b in d[bu:]):
        img.invalid.append("sb: non-zero bytes after bytes_used")
    for t in ("id_table", "inode_table", "dir_table"):
        if sb[t] >= bu:
            raise DecodeError("%s start %d outside bytes_used %d" % (t, sb[t], bu))
    if not (sb["inode_table"] <= sb["dir_table"]):
        img.invalid.append("sb: inode table after directory table")
    order = [("inode_table", sb["inode_table"]), ("dir_table", sb["dir_table"])]
    if sb["frag_table"] != NONE:
        order.append(("frag_table", sb["frag_table"]))
    if sb["export_table"] != NONE:
        order.append(("export_table", sb["export_table"]))
    order.append(("id_table", sb["id_table"]))
    if sb["xattr_table"] != NONE:
        order.append(("xattr_table", sb["xattr_table"]))
    for (an, a), (bn, b) in zip(order, order[1:]):
        if a >= b:
            img.invalid.append("sb: %s (%d) not before %s (%d)" % (an, a, bn, b))
        if b >= bu:
            raise DecodeError("%s start outside bytes_used" % bn)
    if sb["id_count"] == 0:
        raise DecodeError("id_count is 0")
    # compressor options
    data_start = 96
    if sb["flags"] & FLAG_COMP_OPT:
        ms = MetaStream(img, 0, None)
        blk, stored, unc, pos = ms.block(96)
        if not unc:
            img.invalid.append("sb: compressor options block is compressed")
        img.comp_opts = blk
        data_start = 96 + stored
        # per-compressor rules of doc/format.adoc "Compression Options"
        if sb["comp"] == 2:
            img.invalid.append("sb: compressor options present for LZMA (must never be)")
        expect = {1: 8, 3: 8, 4: 8, 5: 8, 6: 4}.get(sb["comp"])
        if expect is not None and len(blk) != expect:
            img.invalid.append("sb: compressor options block has %d bytes, expected %d for compressor %d" % (len(blk), expect, sb["comp"]))
        if sb["comp"] == 5 and len(blk) >= 8:
            ver, lzfl = struct.unpack_from("<II", blk, 0)
            if ver != 1:
                img.invalid.append("sb: LZ4 options version %d (must be 1)" % ver)
            if lzfl & ~1:
                img.invalid.append("sb: LZ4 options with unknown flags %#x" % lzfl)
    elif sb["comp"] == 5:
        img.invalid.append("sb: LZ4 image without compressor options (they always have to be present)")
    # ---- tables
    img.ids = [struct.unpack("<I", e)[0] for e in _read_table(img, sb["id_table"], sb["id_count"], 4, 2048, "id", None)]
    if sb["frag_table"] != NONE:
        if sb["flags"] & FLAG_NO_FRAGS and sb["frag_count"]:
            img.invalid.append("sb: NO_FRAGMENTS flag set but frag_count=%d" % sb["frag_count"])
        for e in _read_table(img, sb["frag_table"], sb["frag_count"], 16, 512, "frag", None):
            start, size, unused = struct.unpack("<QII", e)
            img.frags.append((start, size))
            if unused != 0:
                img.invalid.append("frag: unused field non-zero")
    elif sb["frag_count"]:
        raise DecodeError("frag_count=%d but no fragment table" % sb["frag_count"])
    frag_cache = {}

    def frag_data(idx):
        if idx in frag_cache:
            return frag_cache[idx]
        if idx >= len(img.frags):
            raise DecodeError("fragment index %d out of range (%d)" % (idx, len(img.frags)))
        start, size = img.frags[idx]
        stored = size & 0xFFFFFF
        unc = bool(size & (1 << 24))
        if size >> 25:
            img.invalid.append("frag[%d]: size word has high bits set" % idx)
        if stored > bs:
            img.invalid.append("frag[%d]: stored size %d > block size" % (idx, stored))
        if start < data_start or start + stored > sb["inode_table"]:
            raise DecodeError("fragment block %d at %d+%d outside data area" % (idx, start, stored))
        raw = d[start:start + stored]
        if unc:
            out = raw
        else:
            out = decompress(img.comp, raw, bs)
            img.payload_fields.append(("frag", start, stored))
            if stored > len(out):
                img.invalid.append("frag[%d]: compressed fragment block stores %d bytes for %d bytes of payload" % (idx, stored, len(out)))
        img.data_extents.append((start, start + stored, "fragblk%d" % idx))
        frag_cache[idx] = out
        return out

    # ---- xattrs
    if sb["xattr_table"] != NONE:
        xt = sb["xattr_table"]
        if xt + 16 > len(d):
            raise DecodeError("xattr id table header outside image")
        kv_start, xcount, xunused = struct.unpack_from("<QII", d, xt)
        img.fields.append(("xattr.kv_start", xt, 8))
        img.fields.append(("xattr.count", xt + 8, 4))
        if kv_start >= xt:
            img.invalid.append("xattr: kv_start not before id table")
        descs = _read_table(img, xt + 16, xcount, 16, 512, "xattrdesc", None)
        img.data_extents.append((xt, xt + 16, "xattr-hdr"))
        img.struct_starts.update((xt, kv_start))
        kvms = MetaStream(img, kv_start, xt)
        for di, e in enumerate(descs):
            ref, cnt, size = struct.unpack("<QII", e)
            cur = Cursor(kvms, ref >> 16, ref & 0xFFFF)
            kvs = []
            total = 0
            if cnt > 65536:
                raise DecodeError("xattr set %d claims %d pairs" % (di, cnt))
            for _ in range(cnt):
                ktype, ksize = cur.unpack("<HH")
                pfx = XATTR_PREFIX.get(ktype & 0xFF)
                if pfx is None:
                    raise DecodeError("xattr key prefix id %d unknown" % (ktype & 0xFF))
                if ktype & ~0x1FF:
                    img.invalid.append("xattr: unknown key type bits %#x" % ktype)
                key = pfx + cur.get(ksize)
                vsize, = cur.unpack("<I")
                total += 4 + ksize + 4 + vsize
                if ktype & 0x100:
                    if vsize != 8:
                        raise DecodeError("out-of-line xattr value reference has size %d" % vsize)
                    vref, = cur.unpack("<Q")
                    vc = Cursor(kvms, vref >> 16, vref & 0xFFFF)
                    rsize, = vc.unpack("<I")
                    if rsize > 1 << 20:
                        raise DecodeError("xattr value too large")
                    val = vc.get(rsize)
                else:
                    if vsize > 1 << 20:
                        raise DecodeError("xattr value too large")
                    val = cur.get(vsize)
                kvs.append((key, val))
            if total != size:
                img.invalid.append("xattr set %d: descriptor size %d != actual %d" % (di, size, total))
            img.xattr_sets.append(kvs)

    # ---- inodes
    ims = MetaStream(img, sb["inode_table"], sb["dir_table"])
    dms = MetaStream(img, sb["dir_table"], sb["frag_table"] if sb["frag_table"] != NONE else
                     (sb["export_table"] if sb["export_table"] != NONE else sb["id_table"]))

    def read_inode(ref):
        if ref in img.inodes_by_ref:
            return img.inodes_by_ref[ref]
        cur = Cursor(ims, ref >> 16, ref & 0xFFFF)
        n = Node()
        n.ref = ref
        itype, mode, uidx, gidx, mtime, ino = cur.unpack("<HHHHII")
        fp = cur.last_fpos
        n.fpos = fp[0] if fp else None
        tag = "inode[%d]" % ino
        for nm, o, l in (("type", 0, 2), ("mode", 2, 2), ("uid_idx", 4, 2), ("gid_idx", 6, 2), ("mtime", 8, 4), ("number", 12, 4)):
            _field(img, tag + "." + nm, fp, o, l)
        if itype < 1 or itype > 14:
            raise DecodeError("inode type %d invalid" % itype)
        n.itype = itype
        n.ext = itype > 7
        n.type = itype - 7 if n.ext else itype
        n.mode = mode
        if mode & 0o170000:
            img.invalid.append("%s: mode field carries file type bits %#o" % (tag, mode))
        if uidx >= len(img.ids) or gidx >= len(img.ids):
            raise DecodeError("%s: id index out of range" % tag)
        n.uid, n.gid, n.mtime, n.ino = img.ids[uidx], img.ids[gidx], mtime, ino
        n.xattr_idx = 0xFFFFFFFF
        t = n.type

        def F(names_fmt):
            fmt = "<" + "".join(f for _, f in names_fmt)
            vals = cur.unpack(fmt)
            o = 0
            fpp = cur.last_fpos
            for (nm, f), v in zip(names_fmt, vals):
                l = struct.calcsize("<" + f)
                _field(img, tag + "." + nm, fpp, o, l)
                o += l
            return vals

        if itype == 1:
            n.dir_start, n.nlink, fsz, n.dir_offset, n.parent_ino = F([("dir_start", "I"), ("nlink", "I"), ("dir_size", "H"), ("dir_offset", "H"), ("parent", "I")])
            n.dir_size = fsz
            n.index = []
        elif itype == 8:
            n.nlink, fsz, n.dir_start, n.parent_ino, icount, n.dir_offset, n.xattr_idx = F(
                [("nlink", "I"), ("dir_size", "I"), ("dir_start", "I"), ("parent", "I"), ("index_count", "H"), ("dir_offset", "H"), ("xattr", "I")])
            n.dir_size = fsz
            n.index = []
            for k in range(icount):
                iidx, istart, isz = F([("index[%d].index" % k, "I"), ("index[%d].start" % k, "I"), ("index[%d].name_size" % k, "I")])
                if isz > 255:
                    raise DecodeError("%s: index name size %d" % (tag, isz + 1))
                nm = cur.get(isz + 1)
                n.index.append((iidx, istart, nm))
        elif itype == 2:
            n.blocks_start, fidx, foff, n.size = F([("blocks_start", "I"), ("frag_index", "I"), ("frag_offset", "I"), ("file_size", "I")])
            n.frag = (fidx, foff)
            n.nlink = 1
            n.sparse = 0
        elif itype == 9:
            n.blocks_start, n.size, n.sparse, n.nlink, fidx, foff, n.xattr_idx = F(
                [("blocks_start", "Q"), ("file_size", "Q"), ("sparse", "Q"), ("nlink", "I"), ("frag_index", "I"), ("frag_offset", "I"), ("xattr", "I")])
            n.frag = (fidx, foff)
        elif t == T_SLINK:
            n.nlink, tsz = F([("nlink", "I"), ("target_size", "I")])
            if tsz > 65536:
                raise DecodeError("%s: symlink target size %d" % (tag, tsz))
            n.target = cur.get(tsz)
            _field(img, tag + ".target", cur.last_fpos, 0, tsz)
            if n.ext:
                n.xattr_idx, = F([("xattr", "I")])
        elif t in (T_BLK, T_CHR):
            n.nlink, n.rdev = F([("nlink", "I"), ("devno", "I")])
            if n.ext:
                n.xattr_idx, = F([("xattr", "I")])
        else:
            n.nlink, = F([("nlink", "I")])
            if n.ext:
                n.xattr_idx, = F([("xattr", "I")])
        if t == T_FILE:
            if n.frag[0] == 0xFFFFFFFF:
                nblk = (n.size + bs - 1) // bs
            else:
                nblk = n.size // bs
            if nblk > 1 << 22:
                raise DecodeError("%s: %d blocks" % (tag, nblk))
            words = []
            for k in range(nblk):
                w, = cur.unpack("<I")
                _field(img, tag + ".block[%d]" % k, cur.last_fpos, 0, 4)
                words.append(w)
            n.blocks = words
        if n.xattr_idx != 0xFFFFFFFF:
            if n.xattr_idx >= len(img.xattr_sets):
                raise DecodeError("%s: xattr index %d out of range" % (tag, n.xattr_idx))
            n.xattrs = dict(img.xattr_sets[n.xattr_idx])
            if len(n.xattrs) != len(img.xattr_sets[n.xattr_idx]):
                img.invalid.append("%s: duplicate xattr keys" % tag)
        else:
            n.xattrs = {}
        img.inodes_by_ref[ref] = n
        return n

    def file_content(n):
        out = bytearray()
        pos = n.blocks_start
        remaining = n.size
        tag = "inode[%d]" % n.ino
        sparse = 0
        for k, w in enumerate(n.blocks):
            stored = w & 0xFFFFFF
            unc = bool(w & (1 << 24))
            want = min(bs, remaining)
            if w >> 25:
                img.invalid.append("%s: block word %d has high bits set" % (tag, k))
            if stored == 0:
                out += b"\0" * want
                sparse += want
            else:
                if stored > bs:
                    img.invalid.append("%s: block %d stored size %d > block size" % (tag, k, stored))
                if pos < data_start or pos + stored > sb["inode_table"]:
                    raise DecodeError("%s: data block %d at %d+%d outside data area" % (tag, k, pos, stored))
                raw = d[pos:pos + stored]
                if unc:
                    blk = raw
                else:
                    blk = decompress(img.comp, raw, bs)
                    img.payload_fields.append(("data", pos, stored))
                    if stored > len(blk):
                        img.invalid.append("%s: compressed block %d stores %d bytes for %d bytes of payload" % (tag, k, stored, len(blk)))
                if len(blk) != want:
                    raise DecodeError("%s: block %d has %d bytes, expected %d" % (tag, k, len(blk), want))
                img.data_extents.append((pos, pos + stored, "ino%d.blk%d" % (n.ino, k)))
                out += blk
                pos += stored
            remaining -= want
        if n.frag[0] != 0xFFFFFFFF:
            fb = frag_data(n.frag[0])
            if n.frag[1] + remaining > len(fb):
                raise DecodeError("%s: fragment range %d+%d outside fragment block of %d" % (tag, n.frag[1], remaining, len(fb)))
            out += fb[n.frag[1]:n.frag[1] + remaining]
            remaining = 0
        if remaining:
            raise DecodeError("%s: %d bytes not covered by blocks" % (tag, remaining))
        if n.ext and n.sparse != sparse and not (n.sparse == 0 and sparse == 0):
            # libsquashfs counts hole bytes; the kernel ignores the field. Only flag gross nonsense.
            if n.sparse > n.size:
                img.invalid.append("%s: sparse count %d > file size" % (tag, n.sparse))
        return bytes(out)

    def read_dir(n):
        """returns [(name, ref, type_in_entry, ino)]"""
        ents = []
        if n.dir_size < 3:
            raise DecodeError("inode[%d]: directory size %d < 3" % (n.ino, n.dir_size))
        remaining = n.dir_size - 3
        cur = Cursor(dms, n.dir_start, n.dir_offset)
        prev = None
        hdr_positions = []
        consumed = 0
        while remaining > 0:
            if remaining < 12:
                raise DecodeError("inode[%d]: directory listing truncated header" % n.ino)
            cur.normalise()
            hdr_positions.append((consumed, cur.off, cur.inner))
            cnt, start, base = cur.unpack("<III")
            fp = cur.last_fpos
            tg = "dir[%d].hdr%d" % (n.ino, len(hdr_positions) - 1)
            _field(img, tg + ".count", fp, 0, 4); _field(img, tg + ".start", fp, 4, 4); _field(img, tg + ".inode", fp, 8, 4)
            remaining -= 12
            consumed += 12
            if cnt >= 256:
                img.invalid.append("inode[%d]: directory header with %d entries" % (n.ino, cnt + 1))
                if cnt > 100000:
                    raise DecodeError("directory header count absurd")
            for k in range(cnt + 1):
                if remaining < 8:
                    raise DecodeError("inode[%d]: directory listing truncated entry" % n.ino)
                eoff, delta, etype, nsz = cur.unpack("<HhHH")
                fp = cur.last_fpos
                et = "dir[%d].ent%d" % (n.ino, len(ents))
                _field(img, et + ".offset", fp, 0, 2); _field(img, et + ".delta", fp, 2, 2)
                _field(img, et + ".type", fp, 4, 2); _field(img, et + ".name_size", fp, 6, 2)
                # the kernel limits names to 256 bytes; the format field is 16 bit (doc/format.adoc). Not an error here.
                name = cur.get(nsz + 1)
                _field(img, et + ".name", cur.last_fpos, 0, nsz + 1)
                remaining -= 8 + nsz + 1
                consumed += 8 + nsz + 1
                if remaining < 0:
                    raise DecodeError("inode[%d]: directory entry overruns listing" % n.ino)
                if prev is not None and not (prev < name):
                    img.invalid.append("inode[%d]: directory entries not strictly sorted (%r then %r)" % (n.ino, prev, name))
                prev = name
                if etype < 1 or etype > 7:
                    img.invalid.append("inode[%d]: entry %r has type %d (must be a basic type)" % (n.ino, name, etype))
                if name in (b".", b"..") or b"/" in name or b"\0" in name:
                    img.invalid.append("inode[%d]: entry name %r not a sane file name" % (n.ino, name))
                ents.append((name, (start << 16) | eoff, etype, (base + delta) & 0xFFFFFFFF))
        # index must point at headers
        for iidx, istart, nm in (n.index or []):
            hit = [h for h in hdr_positions if h[0] == iidx]
            if not hit:
                img.invalid.append("inode[%d]: index entry %r points to listing offset %d which is not a header" % (n.ino, nm, iidx))
            elif hit[0][1] != istart:
                img.invalid.append("inode[%d]: index entry %r start block %d != header's block %d" % (n.ino, nm, istart, hit[0][1]))
        if n.index:
            nms = [x[2] for x in n.index]
            if nms != sorted(nms):
                img.invalid.append("inode[%d]: index entries not sorted" % n.ino)
        return ents

    root = read_inode(sb["root"])
    if root.type != T_DIR:
        raise DecodeError("root inode is not a directory")
    root.path = b""
    img.tree[b""] = root
    stack = [root]
    seen_dirs = {root.ref}
    count = 0
    refs_of_ino = {}
    while stack:
        dn = stack.pop()
        ents = read_dir(dn)
        dn.children = []
        nsub = 0
        for name, ref, etype, eino in ents:
            count += 1
            if count > max_nodes:
                raise DecodeError("too many nodes")
            cn = read_inode(ref)
            if cn.type != etype:
                img.invalid.append("entry %r type %d != inode type %d" % (name, etype, cn.type))
            if cn.ino != eino:
                img.invalid.append("entry %r inode number %d != inode's %d" % (name, eino, cn.ino))
            path = (dn.path + b"/" + name) if dn.path else name
            dn.children.append(name)
            refs_of_ino.setdefault(cn.ino, []).append(path)
            if cn.type == T_DIR:
                nsub += 1
                if cn.ref in seen_dirs:
                    raise DecodeError("directory loop / directory linked twice at %r" % path)
                seen_dirs.add(cn.ref)
                if cn.path is None:
                    cn.path = path
                if cn.parent_ino != dn.ino:
                    img.invalid.append("dir %r: parent inode %d != %d" % (path, cn.parent_ino, dn.ino))
                img.tree[path] = cn
                stack.append(cn)
            else:
                if cn.path is None:
                    cn.path = path
                img.tree[path] = cn
        if dn.nlink != len(ents) + 2:
            img.invalid.append("dir %r: link count %d != 2 + %d entries" % (dn.path, dn.nlink, len(ents)))
    # ---- inode numbers 1..N, link counts
    nums = {}
    for n in img.inodes_by_ref.values():
        if n.ino in nums and nums[n.ino] is not n:
            img.invalid.append("inode number %d used by two inodes" % n.ino)
        nums[n.ino] = n
    N = sb["inode_count"]
    if len(img.inodes_by_ref) != N:
        img.invalid.append("sb: inode_count %d but %d inodes reachable" % (N, len(img.inodes_by_ref)))
    if sorted(nums) != list(range(1, len(nums) + 1)):
        img.invalid.append("inode numbers are not exactly 1..%d" % len(nums))
    if root.parent_ino != N + 1 and root.parent_ino != 0:
        # libsquashfs / mksquashfs store inode_count+1 as the root's parent
        img.invalid.append("root parent inode %d (expected %d)" % (root.parent_ino, N + 1))
    for n in img.inodes_by_ref.values():
        if n.type != T_DIR:
            refs = len(refs_of_ino.get(n.ino, []))
            if n.nlink != refs:
                img.invalid.append("inode %d (%r): link count %d != %d references" % (n.ino, n.path, n.nlink, refs))
    # ---- export table
    if sb["export_table"] != NONE:
        if not (sb["flags"] & FLAG_EXPORT):
            img.invalid.append("sb: export table present but EXPORTABLE flag not set")
        ex = [struct.unpack("<Q", e)[0] for e in _read_table(img, sb["export_table"], N, 8, 1024, "export", None)]
        img.export = ex
        for i, ref in enumerate(ex):
            n = nums.get(i + 1)
            if n is None:
                continue
            if ref != n.ref:
                img.invalid.append("export[%d] = %#x but inode %d is at %#x" % (i, ref, i + 1, n.ref))
    elif sb["flags"] & FLAG_EXPORT:
        img.invalid.append("sb: EXPORTABLE flag set without export table")
    if sb["xattr_table"] == NONE and not (sb["flags"] & FLAG_NO_XATTR):
        img.invalid.append("sb: no xattr table but NO_XATTRS flag clear")
    if sb["frag_count"] != len(img.frags):
        img.invalid.append("sb: frag_count mismatch")
    # ---- file contents + data layout
    if want_content:
        for n in img.inodes_by_ref.values():
            if n.type == T_FILE:
                n.content = file_content(n)
        for i in range(len(img.frags)):
            frag_data(i)
    # ---- a lookup table's location list has exactly ceil(count / per_block) entries: it ends where the next structure starts
    # (doc/format.adoc "Storing Lookup Tables"; the kernel refuses an id table whose list does not end at the next table)
    starts = sorted(img.struct_starts | {bu})
    for what, ls, le in img.loc_lists:
        inside = [x for x in starts if ls < x < le]
        nxt = [x for x in starts if x >= le]
        if inside:
            img.invalid.append("%s: location list %d..%d overlaps the structure starting at %d" % (what, ls, le, inside[0]))
        elif not nxt:
            img.invalid.append("%s: location list %d..%d ends after bytes_used %d" % (what, ls, le, bu))
        elif nxt[0] != le:
            img.invalid.append("%s: %d stray bytes between the location list (ends at %d) and the next structure at %d" % (what, nxt[0] - le, le, nxt[0]))
    # device block padding is checked by the caller (needs -B); record file size
    img.file_size = len(d)
    # ---- metadata tables: every block but the last of a table is full (8192 bytes of payload)
    for base, blocks in img.meta_blocks.items():
        pass
    return img


def check_padding(img, devblk):
    if img.ok() and img.file_size % devblk:
        img.invalid.append("file size %d not a multiple of device block size %d" % (img.file_size, devblk))
    if img.ok() and getattr(img, "sb", None) and img.file_size - img.sb["bytes_used"] >= devblk:
        img.invalid.append("file size %d is a device block (%d) or more beyond bytes_used %d" % (img.file_size, devblk, img.sb["bytes_used"]))


def tree_summary(img):
    """Comparable form of the decoded tree: {path: tuple}"""
    out = {}
    for path, n in img.tree.items():
        t = TYPE_NAMES[n.type]
        extra = None
        if n.type == T_FILE:
            extra = n.content
        elif n.type == T_SLINK:
            extra = n.target
        elif n.type in (T_BLK, T_CHR):
            extra = n.rdev
        out[path] = (t, n.mode, n.uid, n.gid, n.mtime, extra, tuple(sorted((n.xattrs or {}).items())), n.ino, n.nlink)
    return out
