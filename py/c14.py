"""C14 — a killed packer never leaves a file that reads as a complete image.

tool-sim journal: one run of gensquashfs / tar2sqfs records every mutation of the output file
(create, pwrite, ftruncate, unlink). Only the main thread touches the output (monitored), so the
file content after SIGKILL before mutation k is exactly the first k-1 records applied in order.
ALL prefixes are materialised (fault_enumeration over crash points), a second pass splits the writes
(short pwrite) so crash points also fall inside what was one write. Each state is offered to the
real readers (rdsquashfs -d, sqfs2tar) and the independent decoder.
Oracle: every reader rejects, or all accept and decode exactly the tree of the finished image.
The journal model is validated against reality by real self-SIGKILL runs (killat).
"""
import os, sys, struct, json, hashlib
from common import *
import vfbuild, pipelines, sqfsdec

PROP = "C14"
QUICK = [
    ("gen-packfile", {"nfiles": 5, "ndirs": 2, "bs": 4096}, 10),
    ("gen-packfile", {"nfiles": 4, "ndirs": 2, "xattrs": True, "hardlinks": True, "exportable": True}, 8),
    ("gen-packfile", {"nfiles": 0, "ndirs": 0, "specials": False}, 2),
    ("gen-packdir", {"nfiles": 5, "ndirs": 2, "xattrs": "safe", "hardlinks": True}, 6),
    ("tar2sqfs", {"nfiles": 5, "ndirs": 2}, 8),
    ("gen-packfile", {"nfiles": 4, "ndirs": 2, "bs": 4096, "overwrite": True}, 4),
    ("tar2sqfs", {"nfiles": 4, "ndirs": 1, "overwrite": True}, 4),
    ("tar2sqfs", {"nfiles": 4, "wrap": "gzip", "xattrs": True}, 4),
]


def read_journal(path):
    recs = []
    data = open(path, "rb").read()
    off = 0
    while off + 24 <= len(data):
        op = chr(data[off])
        o, l = struct.unpack_from("<qq", data, off + 8)
        off += 24
        payload = b""
        if op == "W":
            payload = data[off:off + l]
            off += l
        recs.append((op, o, l, payload))
    return recs


def apply_records(recs, k, initial=None):
    """file content after the first k records; None = file does not exist. initial: content the path held before the run (-f)"""
    buf = None if initial is None else bytearray(initial)
    for op, o, l, payload in recs[:k]:
        if op == "C":
            buf = bytearray()
        elif op == "O":              # existing file opened without truncation: content survives
            if buf is None:
                buf = bytearray()
        elif op == "W":
            if buf is None:
                buf = bytearray()
            if len(buf) < o:
                buf.extend(b"\0" * (o - len(buf)))
            buf[o:o + l] = payload
        elif op == "T":
            if buf is None:
                buf = bytearray()
            if o < len(buf):
                del buf[o:]
            else:
                buf.extend(b"\0" * (o - len(buf)))
        elif op == "U":
            buf = None
    return buf


def reader_outcomes(bdir, statefile, cwd):
    outs = {}
    r = run_sim(os.path.join(bdir, "plain", "sim-rdsquashfs"), ["-d", statefile], cwd=cwd, timeout=60, cpu=10)
    outs["rdsquashfs -d"] = (r.verdict(), hashlib.sha256(r.stdout).hexdigest() if r.rc == 0 else None)
    r = run_sim(os.path.join(bdir, "plain", "sim-sqfs2tar"), [statefile], cwd=cwd, timeout=60, cpu=10)
    outs["sqfs2tar"] = (r.verdict(), hashlib.sha256(r.stdout).hexdigest() if r.rc == 0 else None)
    return outs


def judge(bdir, cd, content, final_outs, final_tree, final=None):
    """returns None or (clause, detail)"""
    if content is None:
        return None, {"exists": False}
    sf = os.path.join(cd, "state.sqfs")
    with open(sf, "wb") as f:
        f.write(content)
    outs = reader_outcomes(bdir, "state.sqfs", cd)
    accepted = [k for k, v in outs.items() if v[0] == "exit:0"]
    crashed = [k for k, v in outs.items() if not v[0].startswith("exit:") or v[0] == "exit:77"]
    info = {"accepted": accepted, "size": len(content)}
    if crashed:
        return ("reader-crash", "%s ended with %s on a crash state" % (crashed[0], outs[crashed[0]][0])), info
    if not accepted:
        return None, info
    if len(accepted) != len(outs):
        rej = [k for k in outs if k not in accepted]
        return ("readers-disagree", "%s accepts the state but %s rejects it" % (accepted[0], rej[0])), info
    for k in outs:
        if outs[k][1] != final_outs[k][1]:
            return ("accepted-but-different", "%s accepts the state and prints something else than for the finished image" % k), info
    if final is not None:
        # "the complete, correct image": every byte the finished image uses is there (only the trailing padding may be missing)
        bu = struct.unpack_from("<Q", final, 40)[0]
        if bytes(content[:bu]) != bytes(final[:bu]):
            diff = next((i for i in range(min(len(content), bu)) if content[i] != final[i]), min(len(content), bu))
            return ("accepted-but-incomplete", "all readers accept the state and print the finished tree, but byte %d of the %d used bytes differs from the finished image" % (diff, bu)), info
    img = sqfsdec.decode(content)
    if not img.ok():
        return ("accepted-but-undecodable", "readers accept, independent decoder says: %s" % img.errors[0]), info
    if sqfsdec.tree_summary(img) != final_tree:
        return ("accepted-but-different", "decoded tree differs from the finished image"), info
    info["complete"] = True
    return None, info


def old_image(bdir, caseseed, kind, prof, d):
    """a finished image of different input, made by the same tool"""
    p2 = {k: v for k, v in prof.items() if k != "overwrite"}
    c2 = pipelines.build_case(bdir, caseseed ^ 0x5a5a5a5a, kind, p2, d)
    o = pipelines.run_case(bdir, c2, d, "seed 1\nsched rr\nreaddir 0\n", "plain")
    if o.rc != 0:
        return None
    return open(os.path.join(d, c2.out_image), "rb").read()


def work(a):
    bdir, caseseed, kind, prof, split, nkill = a
    res = {"states": 0, "rejected": 0, "complete": 0, "absent": 0, "viol": [], "err": None, "case": None, "records": 0,
           "kill_validated": 0, "kill_mismatch": [], "skip": None}
    try:
        with Scratch("c14") as s:
            cd = os.path.join(s, "case")
            case = pipelines.build_case(bdir, caseseed, kind, prof, cd)
            res["case"] = case.describe()
            jp = os.path.join(s, "journal")
            plan = "seed %d\nsched rr\nreaddir 0\njournal out %s\n" % (caseseed % 1000003, jp)
            if split:
                plan += "rate pwrite out short 600\n"
            old = None
            if prof.get("overwrite"):
                # the output path already holds a complete image of OTHER input; the packer is run with -f
                old = old_image(bdir, caseseed, kind, prof, os.path.join(s, "old"))
                if old is None:
                    res["skip"] = "could not build the pre-existing image"
                    return res
                case.argv = case.argv[:-1] + ["-f", case.argv[-1]]
            o = pipelines.run_case(bdir, case, cd, plan, "plain", preexisting=old)
            if o.rc != 0:
                res["skip"] = "packer failed: %s" % o.stderr[-200:]
                return res
            final = open(os.path.join(cd, case.out_image), "rb").read()
            recs = read_journal(jp)
            res["records"] = len(recs)
            if apply_records(recs, len(recs), old) != final:
                res["err"] = "journal replay does not reproduce the final image"
                return res
            fimg = sqfsdec.decode(final)
            if not fimg.ok():
                res["err"] = "decoder rejects the finished image: %s" % fimg.errors[0]
                return res
            final_tree = sqfsdec.tree_summary(fimg)
            with open(os.path.join(cd, "final.sqfs"), "wb") as f:
                f.write(final)
            final_outs = reader_outcomes(bdir, "final.sqfs", cd)
            if any(v[0] != "exit:0" for v in final_outs.values()):
                res["err"] = "reader rejects the finished image: %r" % (final_outs,)
                return res
            prev = object()
            for k in range(1 if old is not None else 0, len(recs) + 1):   # with -f the state before the first output call is the old image
                content = apply_records(recs, k, old)
                res["states"] += 1
                key = None if content is None else hashlib.sha256(content).digest()
                v, info = judge(bdir, cd, content, final_outs, final_tree, final)
                if content is None:
                    res["absent"] += 1
                elif info.get("complete"):
                    res["complete"] += 1
                elif not v:
                    res["rejected"] += 1
                if v:
                    last = recs[k - 1] if k else None
                    res["viol"].append({"k": k, "clause": v[0], "detail": v[1], "plan": plan, "size": info.get("size"),
                                        "last_record": (last[0], last[1], last[2]) if last else None})
            # validate the crash model against reality: really kill the process before mutation k
            r = rng(caseseed, "kill")
            for k in sorted(r.sample(range(1, len(recs) + 1), min(nkill, len(recs)))):
                o2 = pipelines.run_case(bdir, case, cd, plan + "killat out %d\n" % k, "plain", preexisting=old)
                p = os.path.join(cd, case.out_image)
                left = open(p, "rb").read() if os.path.exists(p) else None
                want = apply_records(recs, k - 1, old)
                if o2.sig != 9:
                    res["kill_mismatch"].append("k=%d: process was not killed (%s)" % (k, o2.verdict))
                elif (left is None) != (want is None) or (left is not None and bytes(left) != bytes(want)):
                    res["kill_mismatch"].append("k=%d: file after SIGKILL differs from journal prefix" % k)
                else:
                    res["kill_validated"] += 1
    except Exception as e:
        res["err"] = "%s: %s" % (type(e).__name__, e)
    return res


def rerun_state(bdir, casespec, plan, k):
    with Scratch("c14r") as s:
        cd = os.path.join(s, "case")
        case = pipelines.build_case(bdir, casespec["seed"], casespec["kind"], casespec["profile"], cd)
        jp = os.path.join(s, "journal")
        plan2 = "\n".join(l if not l.startswith("journal ") else "journal out %s" % jp for l in plan.splitlines()) + "\n"
        old = None
        if casespec["profile"].get("overwrite"):
            old = old_image(bdir, casespec["seed"], casespec["kind"], casespec["profile"], os.path.join(s, "old"))
            case.argv = case.argv[:-1] + ["-f", case.argv[-1]]
        o = pipelines.run_case(bdir, case, cd, plan2, "plain", preexisting=old)
        final = open(os.path.join(cd, case.out_image), "rb").read()
        recs = read_journal(jp)
        fimg = sqfsdec.decode(final)
        with open(os.path.join(cd, "final.sqfs"), "wb") as f:
            f.write(final)
        final_outs = reader_outcomes(bdir, "final.sqfs", cd)
        v, info = judge(bdir, cd, apply_records(recs, k, old), final_outs, sqfsdec.tree_summary(fimg), final)
        return v, hashlib.sha256(final).hexdigest()


def replay(spec, bdir=None):
    bdir = bdir or vfbuild.build(variants=("plain",))
    v, h = rerun_state(bdir, spec["case"], spec["plan"], spec["k"])
    ok = bool(v) and v[0] == spec["clause"]
    print("replay: state after %d output mutations -> %s ; expected %s -> %s" % (spec["k"], v, spec["clause"], "REPRODUCED" if ok else "not reproduced"))
    return 1 if ok else 0


def main():
    t = tier()
    seed = master_seed()
    rep = Report(PROP, "fault_enumeration")
    bdir = vfbuild.build()
    mult = 1 if t == "quick" else 20
    items = []
    for kind, prof, n in QUICK:
        for i in range(n * mult):
            cs = derive(seed, "c14", kind, json.dumps(prof, sort_keys=True), i) >> 1
            items.append((bdir, cs, kind, prof, i % 2 == 1, 2))
    results = list(pmap_unordered(work, items))
    states = sum(r["states"] for r in results)
    skipped = [r for r in results if r["skip"]]
    for r in results:
        if r["err"]:
            rep.harness_error("%s: %s" % ((r["case"] or {}).get("kind"), r["err"]))
        for m in r["kill_mismatch"]:
            rep.harness_error("crash model does not match a real SIGKILL: %s %s" % ((r["case"] or {}).get("kind"), m))
    if len(skipped) * 4 > len(results):
        rep.harness_error("too many inputs whose fault-free packing fails: %s" % skipped[0]["skip"])
    seen = {}
    for r in results:
        for v in r["viol"]:
            key = "%s:%s:%s" % (r["case"]["tool"], v["clause"], "superblock" if (v["last_record"] and v["last_record"][1] == 0) else "other")
            seen.setdefault(key, (r, v))
    for key, (r, v) in sorted(seen.items()):
        casespec = {"seed": r["case"]["seed"], "kind": r["case"]["kind"], "profile": r["case"]["profile"]}
        a, h1 = rerun_state(bdir, casespec, v["plan"], v["k"])
        b, h2 = rerun_state(bdir, casespec, v["plan"], v["k"])
        if not a or not b or a[0] != v["clause"] or b[0] != v["clause"] or h1 != h2:
            rep.harness_error("violation %s did not reproduce identically" % key)
            continue
        spec = {"property": PROP, "case": casespec, "plan": v["plan"], "k": v["k"], "clause": v["clause"], "detail": v["detail"],
                "last_record": v["last_record"], "tool": r["case"]["tool"], "argv": r["case"]["argv"]}
        path = rep.write_replay("c14", spec)
        rep.violation(key, "%s %s killed after %d output mutations (last: %s): %s" % (
            r["case"]["tool"], " ".join(r["case"]["argv"]), v["k"], v["last_record"], v["detail"]), path)
    cov = {
        "evaluations": states,
        "distinct_nontrivial": sum(r["rejected"] + r["complete"] for r in results),
        "rule": "one evaluation = one crash state (a prefix of the recorded output-file mutations of one packing run) offered to "
                "rdsquashfs -d, sqfs2tar and the independent decoder; all prefixes of every explored run are enumerated; "
                "non-trivial = the file exists in that state",
        "samples": [dict(r["case"], records=r["records"], states=r["states"], rejected=r["rejected"], complete=r["complete"])
                    for r in results[:4] if r["case"]],
        "exhaustive": True,
        "inputs": len(results) - len(skipped),
        "states_rejected_by_all_readers": sum(r["rejected"] for r in results),
        "states_complete_and_correct": sum(r["complete"] for r in results),
        "states_file_absent": sum(r["absent"] for r in results),
        "inputs_with_split_writes": sum(1 for it in items if it[4]),
        "traces_validated_against_impl": sum(r["kill_validated"] for r in results),
        "journal_validated_against_kill": sum(r["kill_validated"] for r in results),
        "components_real": ["gensquashfs, tar2sqfs (writers); rdsquashfs, sqfs2tar (readers)", "tmpfs"],
        "components_simulated": ["crash = journal prefix (validated by real SIGKILL at sampled k)", "short pwrite splitting"],
    }
    if states < 50:
        rep.harness_error("insufficient reach: %d states" % states)
    return rep.finish(cov, ["kill model: process killed, page cache survives (what the property states); no write reordering below the FS",
                            "exhaustive over crash points of each explored run, inputs are sampled"])


if __name__ == "__main__":
    sys.exit(main())
