"""Tree model, seeded workload generator and emitters (pack file + content files, real directory).

An Entry describes what the *image* should contain. The generator is structural, not noise: file
sizes sit on block boundaries, contents are built from zero blocks, duplicates, shared tails,
compressible and incompressible runs, because those are what steer the block processor.
"""
import re, os, stat, random, hashlib

DIR, FILE, SLINK, CHR, BLK, FIFO, SOCK, LINK = "dir", "file", "slink", "chr", "blk", "fifo", "sock", "link"


class Entry:
    __slots__ = ("path", "type", "mode", "uid", "gid", "mtime", "target", "dev", "content", "xattrs", "explicit")

    def __init__(self, path, type, mode=0o644, uid=0, gid=0, mtime=0, target=None, dev=None, content=None,
                 xattrs=None, explicit=True):
        self.path, self.type, self.mode, self.uid, self.gid, self.mtime = path, type, mode, uid, gid, mtime
        self.target, self.dev, self.content, self.xattrs, self.explicit = target, dev, content, xattrs or {}, explicit

    def brief(self):
        d = {"path": self.path.decode("latin1"), "type": self.type, "mode": oct(self.mode), "uid": self.uid, "gid": self.gid}
        if self.content is not None:
            d["size"] = len(self.content)
            d["sha"] = hashlib.sha256(self.content).hexdigest()[:12]
        if self.target is not None:
            d["target"] = self.target.decode("latin1")
        if self.dev:
            d["dev"] = self.dev
        if self.xattrs:
            d["xattrs"] = len(self.xattrs)
        return d


# ------------------------------------------------------------------ contents
def _rand_bytes(r, n):
    return r.randbytes(n)


_WORDS = [b"squash", b"block ", b"fragment ", b"table\n", b"0000", b"inode ", b"xattr=", b"the ", b"\t\t", b"deadbeef", b"/usr/lib/", b".so.1\n"]


def _compressible(r, n):
    """compressible in different ways, so that different deflate strategies / filters win for different pieces"""
    k = r.randrange(5)
    if k <= 1:                                   # periodic: LZ77 matches
        unit = bytes([r.randrange(32, 127) for _ in range(r.choice([1, 3, 7, 16, 61]))])
        return (unit * (n // len(unit) + 1))[:n]
    if k == 2:                                   # skewed alphabet without repetitions: entropy coding only
        alpha = bytes(r.sample(range(256), r.choice([2, 3, 5, 9])))
        return bytes(alpha[min(len(alpha) - 1, int(r.random() ** 2 * len(alpha)))] for _ in range(n))
    if k == 3:                                   # runs of random bytes: run length coding
        out = bytearray()
        while len(out) < n:
            out += bytes([r.randrange(256)]) * r.choice([2, 5, 17, 40, 200])
        return bytes(out[:n])
    out = bytearray()                            # words
    while len(out) < n:
        out += r.choice(_WORDS)
    return bytes(out[:n])


def gen_content(r, bs, pool, big=False):
    """One file content. pool: shared pieces for duplicates / shared tails / shared blocks."""
    kind = r.randrange(14)
    k = r.choice([0, 0, 1, 1, 2, 3]) if not big else r.choice([2, 3, 5, 9])
    sizes = [0, 1, bs - 1, bs, bs + 1, k * bs + r.choice([-1, 0, 1, bs // 2, 7]) if k else r.randrange(1, bs)]
    if kind == 0:
        return b""
    if kind == 1 and pool["whole"]:
        return r.choice(pool["whole"])                       # whole-file duplicate
    n = max(0, r.choice(sizes))
    if kind == 2:
        return b"\0" * n                                      # all zero (sparse)
    if kind == 3 and big:
        # holes around blocks that are stored uncompressed: hole, noise, hole(, noise)(, tail)
        parts = [b"\0" * bs * r.choice([1, 2]), _rand_bytes(r, bs * r.choice([1, 1, 2])), b"\0" * bs * r.choice([1, 3])]
        if r.random() < 0.5:
            parts.append(_rand_bytes(r, bs))
        if r.random() < 0.5:
            parts.append(_compressible(r, r.randrange(1, bs)))
        return b"".join(parts)
    body = bytearray()
    nblk = n // bs
    for _ in range(nblk):
        c = r.randrange(8)
        if c == 0:
            body += b"\0" * bs                               # hole in the middle
        elif c == 1 and pool["blocks"]:
            body += r.choice(pool["blocks"])                 # shared block
        elif c in (2, 3):
            body += _rand_bytes(r, bs)                       # incompressible
        else:
            body += _compressible(r, bs)
        if len(pool["blocks"]) < 6 and c >= 2:
            pool["blocks"].append(bytes(body[-bs:]))
    tail = n - nblk * bs
    if tail:
        c = r.randrange(6)
        if c == 0 and pool["tails"]:
            t = r.choice(pool["tails"])                      # shared tail
            body += t
        elif c == 1:
            body += _rand_bytes(r, tail)                     # short incompressible (LZ4 expansion case)
        elif c == 2:
            body += b"\0" * tail
        else:
            body += _compressible(r, tail)
        if len(pool["tails"]) < 6:
            pool["tails"].append(bytes(body[nblk * bs:]))
    out = bytes(body)
    if len(pool["whole"]) < 5 and out:
        pool["whole"].append(out)
    return out


NAME_ALPHA = "abcdefghijklmnopqrstuvwxyzABCDEFGHIJKLMNOPQRSTUVWXYZ0123456789_-.,+="


def gen_name(r, hostile):
    n = r.choice([1, 2, 3, 5, 8, 12, 30]) if not hostile else r.choice([1, 3, 8, 100, 255])
    s = "".join(r.choice(NAME_ALPHA) for _ in range(n))
    if hostile:
        specials = [" ", "\"", "\\", "\t", "'", "#", "*", "?", "[", "\xe9", "\xff", "$", "%", "\x01"]
        chars = list(s)
        for _ in range(r.randrange(1, 4)):
            chars[r.randrange(len(chars))] = r.choice(specials)
        s = "".join(chars)
    b = s.encode("latin1")
    if b in (b".", b".."):
        b = b"x" + b
    return b


_SORT_PLAIN = re.compile(rb"^[A-Za-z0-9_\-.,+=/]+$")


def sort_name(path):
    """file name as written into a gensquashfs sort file. Quoted names never match in this code base (decode_filename() unquotes in
    place without terminating the string - observed, outside the listed properties, see DESIGN.md), so plain names are written bare."""
    return path if _SORT_PLAIN.match(path) else quote(path)


def gen_tree(r, bs=4096, nfiles=8, ndirs=3, hostile=False, specials=True, xattrs=False, hardlinks=False,
             big=False, ids=None, bigdir=0, bigdir_dense=False, duptails=0, tiny=0, samenames=False):
    """returns list of Entry (directories before their children)"""
    ents = []
    ids = ids or [0, 0, 1, 1000, 65534, 70000, 0xFFFFFFFE]
    dirs = [b""]
    used = set()
    pool = {"whole": [], "blocks": [], "tails": []}

    def fresh(parent):
        for _ in range(100):
            nm = gen_name(r, hostile and r.randrange(3) == 0)
            p = (parent + b"/" + nm) if parent else nm
            if p not in used:
                used.add(p)
                return p
        raise RuntimeError("name space exhausted")

    def common():
        return dict(mode=r.choice([0o644, 0o755, 0o600, 0o4755, 0o1777, 0o0, 0o7777]), uid=r.choice(ids), gid=r.choice(ids),
                    mtime=r.choice([0, 1, 1234567890, 0x7FFFFFFF, 0xFFFFFFFF, r.randrange(1 << 32)]))

    for _ in range(ndirs):
        parent = r.choice(dirs)
        p = fresh(parent)
        # some directories are only implied by their children
        e = Entry(p, DIR, explicit=r.randrange(4) != 0, **common())
        if not e.explicit:
            e.mode, e.uid, e.gid, e.mtime = None, None, None, None  # filled from --defaults by expected()
        ents.append(e)
        dirs.append(p)
    files = []
    for _ in range(nfiles):
        p = fresh(r.choice(dirs))
        e = Entry(p, FILE, content=gen_content(r, bs, pool, big), **common())
        ents.append(e)
        files.append(e)
    if files and r.random() < 0.5:
        # periodic contents next to each other in packing order: a run of identical blocks right after data that ends in the
        # same block (the block writer's duplicate search may then match a range overlapping the file's own fresh blocks)
        blk = _rand_bytes(r, bs) if r.random() < 0.5 else _compressible(r, bs)
        d = r.choice(dirs)
        stem = gen_name(r, False)
        k1, k2 = r.choice([(1, 2), (1, 3), (2, 5), (2, 3)])
        tailb = r.choice([b"", b"", _rand_bytes(r, 100)])
        for suffix, k in ((b".0", k1), (b".1", k2), (b".2", r.choice([1, k1]))):
            p = (d + b"/" if d else b"") + stem + suffix
            if p not in used:
                used.add(p)
                e = Entry(p, FILE, content=blk * k + (tailb if suffix == b".2" else b""), **common())
                ents.append(e)
                files.append(e)
    if samenames:
        # the same base name at two neighbouring levels: a directory containing an entry named like itself, and a file name that occurs
        # both in a directory and in its parent (what a recursive walk hands out one after the other depends on readdir order)
        for dpath in [x for x in dirs if x][:4]:
            base = dpath.rsplit(b"/", 1)[-1]
            parent = dpath.rsplit(b"/", 1)[0] if b"/" in dpath else b""
            for pth in (dpath + b"/" + base, dpath + b"/Makefile", (parent + b"/" if parent else b"") + b"Makefile"):
                if pth not in used:
                    used.add(pth)
                    e = Entry(pth, FILE, content=_compressible(r, r.choice([0, 10, 300])), **common())
                    ents.append(e)
                    files.append(e)
    if tiny:
        # many files below 512 bytes (own blocks with -T / DONT_FRAGMENT, tiny last fragment blocks)
        for _ in range(tiny):
            p = fresh(r.choice(dirs))
            e = Entry(p, FILE, content=_compressible(r, r.choice([1, 20, 100, 300, 511, 512, 700])), **common())
            ents.append(e)
            files.append(e)
    if duptails:
        # many sub-block files drawn from a few compressible contents: a duplicate tail end regularly arrives while the fragment
        # block holding its first copy is sealed and submitted but not yet written (the "in flight" fragment block)
        tpool = [_compressible(r, r.randrange(bs // 8, bs * 3 // 4)) for _ in range(r.choice([3, 5, 8]))]
        for _ in range(duptails):
            p = fresh(r.choice(dirs))
            e = Entry(p, FILE, content=r.choice(tpool) if r.randrange(5) else _compressible(r, r.randrange(1, bs)), **common())
            ents.append(e)
            files.append(e)
    if bigdir:
        parent = fresh(b"")
        ents.append(Entry(parent, DIR, **common()))
        for i in range(bigdir):
            if bigdir_dense:
                # short names + 20 byte inodes: many entries per metadata block, so the 256-entries-per-header limit is what splits
                ents.append(Entry(parent + b"/" + ("e%05d" % i).encode(), FIFO, **common()))
                continue
            nm = ("e%05d" % i + "x" * r.choice([0, 0, 0, 20, 200])).encode()
            ents.append(Entry(parent + b"/" + nm, r.choice([FILE, FIFO, SLINK]), content=None, **common()))
            e = ents[-1]
            if e.type == FILE:
                e.content = b"" if r.randrange(3) else _compressible(r, r.randrange(1, 50))
            if e.type == SLINK:
                e.target = b"t%d" % i
                e.mode = 0o777
    if specials:
        for t in r.sample([SLINK, SLINK, CHR, BLK, FIFO, SOCK], r.randrange(0, 5)):
            p = fresh(r.choice(dirs))
            e = Entry(p, t, **common())
            if t == SLINK:
                e.mode = 0o777
                e.target = r.choice([b"a", b"../x/y", b"/abs/olute", gen_name(r, hostile) * r.choice([1, 1, 40])])
            if t in (CHR, BLK):
                e.dev = (r.choice([0, 1, 5, 255, 256, 4095]), r.choice([0, 1, 255, 256, 1048575]))
            ents.append(e)
    if hardlinks and files:
        for _ in range(r.randrange(1, 4)):
            tgt = r.choice(files)
            p = fresh(r.choice(dirs))
            ents.append(Entry(p, LINK, target=tgt.path, mode=0o777))
    if xattrs:
        keys = [b"user.a", b"user.bb", b"user.comment", b"trusted.t", b"security.selinux", b"user.long" + b"k" * 60]
        vals = [b"", b"v", b"value1", b"x" * 300, bytes(range(256)), b"shared-long-value-" * 20]
        for e in ents:
            if e.type != LINK and e.explicit and r.randrange(3) == 0:
                for k in r.sample(keys, r.randrange(1, 4)):
                    # the kernel refuses user.* on anything but regular files and directories; keep trees
                    # materialisable (pack-dir input, unpack with --set-xattr) on the host file system
                    if k.startswith(b"user.") and e.type not in (FILE, DIR):
                        continue
                    if k.startswith(b"security.") and xattrs == "safe":
                        continue
                    e.xattrs[k] = r.choice(vals)
                    # lengths that put the self-describing length prefix of a PAX record ("<len> SCHILY.xattr.<key>=<value>\n") next to a
                    # power of ten (19 + len(key) + len(value) around 100, 20 + ... around 1000)
                    c = r.random()
                    if c < 0.3:
                        e.xattrs[k] = bytes(r.choice(b"abcxyz0189") for _ in range(max(0, r.randrange(75, 98) - len(k))))
                    elif c < 0.36:
                        e.xattrs[k] = bytes(r.choice(b"abcxyz0189") for _ in range(max(0, r.randrange(970, 1090) - len(k))))
        # special files with attribute sets of their own (the extended variants of the fifo / socket / device / symlink inodes):
        # trusted.* is the one namespace every inode type may carry on the host
        n = 0
        for e in ents:
            if e.type in (FIFO, SOCK, CHR, BLK, SLINK) and e.explicit and r.randrange(2) == 0:
                n += 1
                e.xattrs[b"trusted.sp%d" % (n % 3)] = b"special-%d" % n
    return ents


def host_materialisable(ents):
    """in place: what a host directory cannot hold is cut down (symlink targets above PATH_MAX - 1)"""
    for e in ents:
        if e.type == SLINK and e.target is not None and len(e.target) > 4095:
            e.target = e.target[:4095]
    return ents


# ------------------------------------------------------------------ pack file emitter
def quote(b):
    s = b.replace(b"\\", b"\\\\").replace(b'"', b'\\"')
    return b'"' + s + b'"'


def packfile_representable(e):
    """names containing a newline can not be written to a pack file; leading/trailing spaces are fine when quoted"""
    return b"\n" not in e.path and (e.target is None or b"\n" not in e.target)


def emit_packfile(ents, root, name="pack.txt"):
    """writes <root>/<name> plus content files <root>/in/f<i>; returns pack file path"""
    os.makedirs(os.path.join(root, "in"), exist_ok=True)
    lines = []
    i = 0
    for e in ents:
        if e.type == DIR:
            if not e.explicit:
                continue
            lines.append(b"dir %s %o %d %d" % (quote(b"/" + e.path), e.mode, e.uid, e.gid))
        elif e.type == FILE:
            src = "in/f%d" % i
            i += 1
            with open(os.path.join(root, src), "wb") as f:
                f.write(e.content)
            lines.append(b"file %s %o %d %d %s" % (quote(b"/" + e.path), e.mode, e.uid, e.gid, src.encode()))
        elif e.type == SLINK:
            lines.append(b"slink %s %o %d %d %s" % (quote(b"/" + e.path), e.mode, e.uid, e.gid, quote(e.target)))
        elif e.type == LINK:
            lines.append(b"link %s %o %d %d %s" % (quote(b"/" + e.path), 0o777, 0, 0, quote(b"/" + e.target)))
        elif e.type in (CHR, BLK):
            lines.append(b"nod %s %o %d %d %s %d %d" % (quote(b"/" + e.path), e.mode, e.uid, e.gid,
                                                       b"c" if e.type == CHR else b"b", e.dev[0], e.dev[1]))
        elif e.type == FIFO:
            lines.append(b"pipe %s %o %d %d" % (quote(b"/" + e.path), e.mode, e.uid, e.gid))
        elif e.type == SOCK:
            lines.append(b"sock %s %o %d %d" % (quote(b"/" + e.path), e.mode, e.uid, e.gid))
    p = os.path.join(root, name)
    with open(p, "wb") as f:
        f.write(b"# generated\n" + b"\n".join(lines) + b"\n")
    return p


def xattr_value_text(v):
    """one of the three value encodings of the xattr map file, chosen by the value itself (so the same tree always gives the same file)"""
    import base64
    if not v:
        return b'""'
    pick = (len(v) + sum(v)) % 3
    if pick == 1:
        return b"0s" + base64.b64encode(v)
    if pick == 2 and all(32 <= c < 127 for c in v) and not v[:2].lower() in (b"0x", b"0s") and v == v.strip():
        return b'"' + b"".join(b"\\%03o" % c if c in (0x22, 0x5c) else bytes([c]) for c in v) + b'"'
    return b"0x" + v.hex().encode()


def emit_xattr_file(ents, root, name="xattr.txt"):
    out = []
    for e in ents:
        if e.xattrs:
            out.append(b"# file: " + e.path)
            for k, v in sorted(e.xattrs.items()):
                out.append(k + b"=" + xattr_value_text(v))
            out.append(b"")
    p = os.path.join(root, name)
    with open(p, "wb") as f:
        f.write(b"\n".join(out) + b"\n")
    return p


# ------------------------------------------------------------------ real directory emitter
def emit_dir(ents, root):
    """materialise the tree under root (as root: mknod/chown/xattrs work on tmpfs)"""
    os.makedirs(root, exist_ok=True)
    try:
        _emit_dir(ents, root)
    finally:
        os.chmod(root, 0o755)
        os.utime(root, (11, 11))


def _emit_dir(ents, root):
    later = []
    for e in ents:
        p = os.path.join(os.fsencode(root), e.path)
        parent = os.path.dirname(p)
        os.makedirs(parent, exist_ok=True)
        if e.type == DIR:
            os.makedirs(p, exist_ok=True)
        elif e.type == FILE:
            with open(p, "wb") as f:
                f.write(e.content)
        elif e.type == SLINK:
            os.symlink(e.target, p)
        elif e.type == LINK:
            os.link(os.path.join(os.fsencode(root), e.target), p)
            continue
        elif e.type == CHR:
            os.mknod(p, stat.S_IFCHR | 0o600, os.makedev(*e.dev))
        elif e.type == BLK:
            os.mknod(p, stat.S_IFBLK | 0o600, os.makedev(*e.dev))
        elif e.type == FIFO:
            os.mkfifo(p)
        elif e.type == SOCK:
            os.mknod(p, stat.S_IFSOCK | 0o600)
        later.append((p, e))
    for p, e in reversed(later):
        if e.mode is None:
            # implied directory: give it fixed, comparable attributes
            os.chmod(p, 0o755)
            os.utime(p, (7, 7))
            continue
        os.lchown(p, e.uid, e.gid)
        if e.type != SLINK:
            os.chmod(p, e.mode)
        for k, v in e.xattrs.items():
            try:
                os.setxattr(p, k, v, follow_symlinks=False)
            except OSError:
                pass
        os.utime(p, (e.mtime, e.mtime), follow_symlinks=False)


# ------------------------------------------------------------------ expected image tree
def expected_packfile(ents, def_mtime=0, defaults=None, force_uid=None, force_gid=None, with_xattrs=False,
                      link_as_hardlink=True):
    """{path: (type, mode, uid, gid, mtime, extra, xattrs)} + hard-link groups, for pack-file input.
    In pack-file mode every node gets the default mtime; implied directories get --defaults."""
    dfl = {"uid": 0, "gid": 0, "mode": 0o755, "mtime": def_mtime}
    if defaults:
        dfl.update(defaults)
    # --set-uid/--set-gid override what the pack file lines specify; the root and implied directories take --defaults
    out = {b"": ("dir", dfl["mode"], dfl["uid"], dfl["gid"], dfl["mtime"], None, ())}
    groups = []
    bypath = {e.path: e for e in ents}

    def implied(p):
        while p:
            p = os.path.dirname(p)
            if p and p not in out:
                out[p] = ("dir", dfl["mode"], dfl["uid"], dfl["gid"], dfl["mtime"], None, ())

    for e in ents:
        implied(e.path)
        if e.type == DIR and not e.explicit:
            continue    # exists only if something below it is listed (handled by implied())
        if e.type == LINK:
            groups.append((e.path, e.target))
            continue
        uid = e.uid if force_uid is None else force_uid
        gid = e.gid if force_gid is None else force_gid
        extra = None
        t = e.type
        if t == FILE:
            extra = e.content
        elif t == SLINK:
            extra = e.target
        elif t in (CHR, BLK):
            extra = (e.dev[0] << 8) | (e.dev[1] & 0xFF) | ((e.dev[1] & ~0xFF) << 12)
        xa = tuple(sorted(e.xattrs.items())) if with_xattrs else ()
        out[e.path] = (t, e.mode, uid, gid, dfl["mtime"], extra, xa)
    return out, groups


def compare_tree(expected, groups, img_summary):
    """expected from expected_packfile, img_summary from sqfsdec.tree_summary. returns list of differences"""
    diffs = []
    exp = dict(expected)
    copies = [g for g in groups if len(g) == 3]
    groups = [g[:2] for g in groups if len(g) == 2]
    for g in copies + groups:
        if g[1] in exp:
            exp[g[0]] = exp[g[1]]
    for p in sorted(set(exp) | set(img_summary)):
        if p not in img_summary:
            diffs.append("missing in image: %r" % p)
            continue
        if p not in exp:
            diffs.append("unexpected in image: %r" % p)
            continue
        a, b = exp[p], img_summary[p][:7]
        if a != b:
            names = ["type", "mode", "uid", "gid", "mtime", "data", "xattrs"]
            for i, nm in enumerate(names):
                if a[i] != b[i]:
                    x, y = a[i], b[i]
                    if isinstance(x, bytes) and len(x) > 40:
                        x = "%d bytes sha %s" % (len(x), hashlib.sha256(x).hexdigest()[:10])
                    if isinstance(y, bytes) and len(y) > 40:
                        y = "%d bytes sha %s" % (len(y), hashlib.sha256(y).hexdigest()[:10])
                    diffs.append("%r: %s expected %r got %r" % (p, nm, x, y))
    # hard-link groups: same inode number <=> same group
    for link, tgt in groups:
        if link in img_summary and tgt in img_summary:
            if img_summary[link][7] != img_summary[tgt][7]:
                diffs.append("hard link %r -> %r: different inode numbers" % (link, tgt))
    return diffs


def expected_packdir(ents, keep_time=True, def_mtime=0, with_xattrs=False, force_uid=None, force_gid=None, hardlinks=True):
    """expected image tree for gensquashfs --pack-dir over emit_dir(ents)"""
    out = {b"": ("dir", 0o755, 0 if force_uid is None else force_uid, 0 if force_gid is None else force_gid,
                 11 if keep_time else def_mtime, None, ())}
    groups = []

    def mt(v):
        return v if keep_time else def_mtime

    for e in ents:
        p = e.path
        while p:
            p = os.path.dirname(p)
            if p and p not in out:
                out[p] = ("dir", 0o755, 0 if force_uid is None else force_uid, 0 if force_gid is None else force_gid, mt(7), None, ())
    for e in ents:
        if e.type == DIR and not e.explicit:
            out[e.path] = ("dir", 0o755, 0 if force_uid is None else force_uid, 0 if force_gid is None else force_gid, mt(7), None, ())
            continue
        if e.type == LINK:
            if hardlinks:
                groups.append((e.path, e.target))
            else:
                groups.append((e.path, e.target, "copy"))
            continue
        uid = e.uid if force_uid is None else force_uid
        gid = e.gid if force_gid is None else force_gid
        extra = None
        if e.type == FILE:
            extra = e.content
        elif e.type == SLINK:
            extra = e.target
        elif e.type in (CHR, BLK):
            extra = (e.dev[0] << 8) | (e.dev[1] & 0xFF) | ((e.dev[1] & ~0xFF) << 12)
        mode = 0o777 if e.type == SLINK else e.mode
        xa = tuple(sorted(e.xattrs.items())) if with_xattrs else ()
        out[e.path] = (e.type, mode, uid, gid, mt(e.mtime), extra, xa)
    return out, groups
