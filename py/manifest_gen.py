"""Regenerates /verif/MANIFEST.json from the table below (kept in one place so it stays valid)."""
import json, os
VERIF = os.path.dirname(os.path.dirname(os.path.abspath(__file__)))

CHECKS = {}
NA = {}

def check(pid, engine, category, text, note, technique, design):
    CHECKS[pid] = {
        "property_id": pid,
        "quick_cmd": "./vf check %s --tier quick" % pid,
        "thorough_cmd": "./vf check %s --tier thorough" % pid,
        "evidence_file": "evidence/%s.json" % pid,
        "replay_cmd_template": "./vf replay {path}",
        "engine": engine,
        "level_claimed": {"category": category, "text": text, "design_ref": design},
        "level_note": note,
        "technique": technique,
    }

check("C09", "pool-sim", "exploration",
      "Seeded search over interleavings of the real thread pool (1..8 workers, 1..16 items, failing item at every position, "
      "spurious wake-ups, stalled threads, calloc/pthread_create faults) against a sequential FIFO model; deadlock is decided by "
      "the scheduler (no runnable thread), not by a timeout. Sampling, not enumeration: a clean batch is evidence, not proof.",
      "Trusted: simos scheduler models pthread mutex/condvar semantics faithfully; interleavings are explored at "
      "mutex/condvar/create/join/yield granularity; data races between sync points are invisible.",
      "deterministic simulation: seeded schedule search with fault injection vs sequential model", "DESIGN.md 5/C09")

check("C12", "tool-sim", "exploration",
      "Every tool pipeline (gensquashfs pack-file/pack-dir, tar2sqfs plain and gzip/xz/bzip2/zstd input, sqfs2tar plain and compressed, "
      "rdsquashfs cat/list/describe/xattr/stat/unpack) is run fault-free and then under seeded short counts, EINTR bursts and stdin "
      "chunking down to 1 byte on read/write/pread/pwrite of every descriptor class, with a seeded thread schedule; outputs and exit "
      "status must equal the reference. Failing plans are rewritten as explicit faults and delta-debugged.",
      "Trusted: the --wrap seam sees every read/write/pread/pwrite the project code issues (stdio inside libc is not perturbed); "
      "inputs come from the seeded generator.",
      "deterministic simulation: seeded fault injection (short I/O, EINTR, pipe chunking) vs fault-free reference", "DESIGN.md 5/C12")

check("C13", "tool-sim", "fault_enumeration",
      "For each small pipeline a counting run gives the number of calls per (libc call, descriptor class), project allocations and "
      "compressor calls; every single position k is then failed once (ENOSPC/EIO/EMFILE, EINTR-then-error, early EOF where the "
      "length is known, NULL from the k-th allocation, k-th compressor call, k-th pthread_create) in the sanitized build. Oracle: no "
      "crash/sanitizer report/deadlock/hang; exit!=0 => diagnostic and no output file; exit 0 => output identical to the clean run.",
      "Single-fault model; classes with more calls than the cap are sampled (first/last 10 + seeded sample) and reported as such; "
      "allocation faults cover project code only (codec libraries keep the real allocator).",
      "deterministic simulation: exhaustive single-fault enumeration over intercepted calls and allocations", "DESIGN.md 5/C13")

check("C14", "tool-sim journal", "fault_enumeration",
      "Every mutation of the output file of a packing run is journalled (create, pwrite, ftruncate, unlink); all prefixes of the journal "
      "- the exact file contents after a kill between two output system calls, also with writes split by short pwrite - are materialised "
      "and offered to rdsquashfs -d, sqfs2tar and the independent decoder. A state must be rejected by every reader or decode to exactly "
      "the finished image's tree. The journal model is validated by real self-SIGKILL runs at sampled k (byte-identical file).",
      "Crash model = process kill with the page cache surviving (what the property states). Exhaustive over crash points of each explored "
      "run; the inputs are sampled by the seeded generator.",
      "deterministic simulation: exhaustive crash-point enumeration over a recorded write journal", "DESIGN.md 5/C14")

check("C02", "tool-sim", "exploration",
      "The image of one input is produced by the serial reference pool and under seeded (-j, -Q, simulated CPU count, schedule policy, "
      "spurious wake-ups, stalled workers, TZ/locale/umask/absolute-vs-relative output path, simulated clock, allocator junk byte) "
      "variants; sha256 must be identical everywhere. Differences are re-run twice (gate), replayed from the recorded decision "
      "sequence and shrunk (fewer threads, smaller backlog, neutral environment, shorter decision list).",
      "Threads are serialised by the simulator: data races between synchronisation points are invisible; schedules and inputs are sampled.",
      "deterministic simulation: seeded schedule/configuration search vs serial reference implementation", "DESIGN.md 5/C02")

check("C11", "tool-sim", "exploration",
      "The readdir seam sorts the real entries of each directory and applies a seeded permutation (identity, reverse, random); "
      "gensquashfs --pack-dir and glob lines over real tmpfs trees (hard links, devices, xattrs) must yield the same image for every "
      "permutation. One known finding (first-seen-wins hard link detection) is listed in known_findings.txt and keyed by experiment "
      "(dependence disappears with -H).",
      "Permutations and trees are sampled; the host's own order is removed by sorting before permuting.",
      "deterministic simulation: seeded permutation of directory enumeration order", "DESIGN.md 5/C11")

check("C01", "tool-sim", "exploration",
      "gensquashfs packs generated trees (pack file and real pack dir, hostile names, boundary-sized contents, hard links, xattrs, every "
      "inode type, 300/700-entry directories) under a seeded configuration swarm (compressor + extra options, block size, -e -T -B -d "
      "--set-uid/gid --all-root -k -x -H, SOURCE_DATE_EPOCH, -j/-Q, store-mode proxy) with the scheduler active and, in half of the "
      "runs, benign faults (short I/O, EINTR, readdir permutation, allocator junk). The independent decoder's tree must equal the "
      "model's expected tree; rdsquashfs -u (as root), -c and -d must agree; over-long names must be refused. Claimed only as far as "
      "the generator reaches: DST contributes schedules/configurations/benign faults, not input enumeration.",
      "Trusted: py/sqfsdec.py as independent reading of doc/format.adoc; the tree model's documented-option semantics (root and implied "
      "directories take --defaults, not --set-uid).",
      "deterministic simulation: seeded configuration/schedule/benign-fault search with an independent decoder as oracle", "DESIGN.md 5/C01")

check("C03", "validator over simulated runs", "exploration",
      "The independent validator is evaluated on every image the C01-style exploration produces (gensquashfs, all compressors and option "
      "combinations, under schedules and benign faults) plus tar2sqfs images: superblock/layout consistency, padding, stored block sizes, "
      "contiguity, sorted listings, <=256 entries per header, index entries, inode numbers 1..N, link counts, parents, table references, "
      "export table. Keyed findings: (tool, compressor, invariant).",
      "Same trust base as C01; the monitor sees only images the generator and configuration swarm produce.",
      "deterministic simulation: invariant monitor over all images produced by simulated runs", "DESIGN.md 5/C03")

check("C08", "tool-sim", "exploration",
      "xxh32 is masked to 2..8 bits at link time so that many different blocks / tail ends of equal stored size collide; collision "
      "workloads (equal-length distinct tails, equal-size incompressible blocks, true duplicates, dont_deduplicate/dont_fragment flags) "
      "are packed under seeded -j/-Q/schedules/stalled workers. Oracle: every file byte-exact via the independent decoder, true "
      "duplicates share storage, image equals the serial-pool image for the same checksum width. Reach probes (guarded hook) for each "
      "compare path - in-flight copy, current fragment block, re-read from disk, equal/differ, block-writer range equal/differ - must "
      "be non-zero, otherwise the check exits 2.",
      "Collisions are forced on the checksum; equal compressed sizes come from the workload. Schedules are sampled.",
      "deterministic simulation: fault injection on the checksum function x seeded schedule search", "DESIGN.md 5/C08")

check("C04", "tool-sim", "exploration",
      "Archives from an independent emitter (v7, ustar prefix split, GNU long name/link + base-256, PAX path/linkpath/uid/gid/mtime/size, "
      "SCHILY and LIBARCHIVE xattrs, GNU sparse old/0.0/0.1/1.0, hard links, negative and >2^33 mtimes, './' and '/' prefixes; emitter "
      "validated against GNU tar and Python tarfile) are converted by tar2sqfs under stdin chunking, short I/O, EINTR and seeded schedules; "
      "the decoded image must equal the archive model's expected tree. sqfs2tar output (short writes) is parsed by Python tarfile and "
      "extracted by GNU tar and must equal the image tree; img->tar->img->tar->img must be a byte-exact fixpoint. Two known findings "
      "(xattr order within a set reversed per round trip) are keyed by experiment.",
      "Archive shapes are sampled by the generator; DST contributes chunking, short I/O, schedules. GNU tar / Python tarfile are trusted readers.",
      "deterministic simulation: seeded I/O chunking + schedule search with independent archive model and readers as oracles", "DESIGN.md 5/C04")

check("C15", "tool-sim", "exploration",
      "tar2sqfs gets the same archive plain and wrapped in gzip/xz/bzip2/zstd (levels, single stream, 2..4 concatenated members split at "
      "arbitrary offsets incl. inside a tar header, sizes aimed at the 128 KiB / 256 KiB buffers) through seeded stdin chunkings and "
      "EINTR: images must be identical. Stored-byte faults on the compressed stream (truncation, bit flips) must give exit != 0 or the "
      "same image - never another tree, never a hang (CPU limit). sqfs2tar -c X output under short writes must expand, with the "
      "reference decompressor, to the plain output.",
      "Reference decompressors (Python zlib/lzma/bz2, zstd CLI) are trusted; a flip they do not notice is not required to be detected.",
      "deterministic simulation: seeded chunking + stored-byte fault injection on compressed streams vs plain-input reference", "DESIGN.md 5/C15")

check("C07", "tool-sim", "exploration",
      "Stored-byte faults on what the packers read: tar streams (every dialect of the independent emitter) truncated at structural and "
      "seeded offsets, header fields rewritten with and without checksum fix-up, PAX / long-name payloads and sparse maps rewritten, "
      "gzip/xz/bzip2/zstd wrappings cut or corrupted, all hard-link graphs over 3 names (cycles, self links, chains, links to "
      "directories); mutated pack, sort and xattr files for gensquashfs. Sanitized build, CPU limit as termination bound. Exit 0 => image "
      "decodes and passes the C03 validator; exit != 0 => diagnostic and no output file.",
      "Structure-aimed sampling, not coverage-guided fuzzing; deep multi-field forgeries are out of reach.",
      "deterministic simulation: stored-byte fault injection on input streams with crash/hang/validity oracle", "DESIGN.md 5/C07")

check("C05", "tool-sim", "exploration",
      "Valid images (store-mode proxy => uncompressed metadata, and real compressors) are damaged through the independent decoder's field "
      "map: every superblock field, table pointer, inode field, block size word, directory header/entry, index entry, table entry gets "
      "boundary / off-by-one / high-bit / random values (1..3 per image), plus truncation, random flips and transient variants delivered "
      "by the pread/read seam (2nd read of a byte differs). rdsquashfs -l/-s/-c/-x/-d/-u, sqfs2tar and sqfsdiff run in the sanitized "
      "build under a CPU limit; anything but an orderly exit is a violation.",
      "Structure-aimed sampling, not coverage-guided fuzzing; consistent multi-field forgeries are out of reach.",
      "deterministic simulation: stored-byte fault injection aimed by an independent field map, crash/hang oracle", "DESIGN.md 5/C05")

check("C06", "tool-sim + path monitor", "exploration",
      "Store-mode images of trees built for rewriting get directory entry names ('.', '..', 'a/b', '/abs', embedded NUL, case variants, "
      "duplicates of a sibling incl. the symlink + same-named directory/file attack), entry types and symlink targets (relative and "
      "absolute paths to decoys outside R) rewritten through the field map; rdsquashfs -u <sub-path> -p R runs with random subsets of "
      "-C -O -T -X -Z in a fresh jail. The simos jail monitor resolves every path-taking call the way the kernel will and requires the "
      "object acted on to lie under R; afterwards the snapshot of the jail outside R must be unchanged; exit status 0 or 1.",
      "Names are rewritten in place, so only the generated name lengths occur; unpacking runs as root on tmpfs.",
      "deterministic simulation: stored-byte fault injection + per-call confinement invariant + before/after snapshot", "DESIGN.md 5/C06")

check("C10", "reader-sim", "exploration",
      "One set of libsquashfs reader objects over an in-memory sqfs_file_t receives seeded histories of API calls (get inode by valid / "
      "off-by-one / other-block / beyond-table reference, list directory, resolve path and inode number, positional reads straddling "
      "block and fragment boundaries, get_block, get_fragment, stream read, xattr get_desc/seek/read_key/read_value/read_all, id lookup, "
      "raw meta reader seek+read in and out of range, stream == read == blocks+fragment), with repeats, under transient read_at failures "
      "at seeded call ordinals and one allocation failure, on valid (store / compressed, multi-metadata-block) and persistently damaged "
      "images. Every call is compared with the same call on freshly created readers (memoised). Diverging histories are replayed in a "
      "fresh process and delta-debugged to the classic 3-call shape. A valgrind memcheck pass over some histories catches answers that "
      "depend on uninitialised memory.",
      "The '.'/'..' feature of a DOT_ENTRIES reader is documented as history dependent and excluded; faults hit calls, not construction.",
      "deterministic simulation: seeded API-history search with transient I/O / allocation faults vs fresh-reader reference model", "DESIGN.md 5/C10")

check("C19", "copy-sim", "exploration",
      "For each copyable libsquashfs object kind (5 compressors x 2 directions, fragment table, id table, meta reader, dir reader with and "
      "without dot-entry cache, data reader, xattr reader, read-only native file, xattr writer): seeded pre-copy history, sqfs_copy, "
      "seeded interleaving of operations on original and copy, release in either order with operations on the survivor. Reference: twin "
      "objects with the same history, one fed exactly the original's operations, one exactly the copy's. Fault: j-th allocation inside the "
      "copy hook fails (copy must be NULL, original must keep matching its twin). Half the batches run sanitized; a fault-free "
      "LeakSanitizer pass flags leaks through copy hooks; uncopyable objects and writable files must refuse.",
      "Operations are the harness's choice of public API calls per kind; twins must agree before the copy (checked).",
      "deterministic simulation: seeded operation-history search with allocation faults vs twin reference model", "DESIGN.md 5/C19")

PENDING = ["C01","C02","C03","C04","C05","C06","C07","C08","C10","C11","C12","C13","C14","C15","C19"]
NA_REASONS = {
 "C16": "pure relation between two text transducers (describe printer, pack-file tokenizer); no schedule, clock, fault, crash point or history in the statement - deciding it is input enumeration, which deterministic simulation does not do (DESIGN.md section 0)",
 "C17": "pure function from (tree, sort file, switches) to layout; its only schedule dependence is C02 and its only content dependence is C01 - nothing for a simulator to perturb (DESIGN.md section 0)",
 "C18": "pure function on strings; exhaustive enumeration up to length 10 is the right tool and is not simulation (DESIGN.md section 0)",
}

def main():
    na = [{"property_id": k, "reason": v} for k, v in sorted(NA_REASONS.items())]
    for p in PENDING:
        if p not in CHECKS:
            na.append({"property_id": p, "reason": "check under construction in this session; not claimed until its quick command is registered"})
    m = {
        "version": 1,
        "setup_cmd": "./vf build",
        "hooks": {
            "guard": "AGENTD_SQUASHFS_TOOLS_NG_VERIF",
            "enable": "py/vfbuild.py compiles every project source from /repo's working tree with -DAGENTD_SQUASHFS_TOOLS_NG_VERIF and links it with simos under GNU ld --wrap",
            "baseline_off_cmd": "make -C /repo -j16 check",
            "source_commits": ["e4d756b"],
            "add_only": True,
        },
        "engines": [
            {"name": "tool-sim", "path": "simos/ + py/pipelines.py", "serves_properties": ["C01", "C02", "C03", "C04", "C05", "C06", "C07", "C08", "C15", "C11", "C12", "C13", "C14"], "kind_free_text": "each tool's real sources linked with simos under --wrap; one process per simulated run"},
            {"name": "reader-sim", "path": "scn/reader.c", "serves_properties": ["C10"], "kind_free_text": "libsquashfs readers over an in-memory file with fault hooks; thousands of API histories per second in one process"},
            {"name": "copy-sim", "path": "scn/copy.c", "serves_properties": ["C19"], "kind_free_text": "object copies vs twin objects, many lives per process, restart after a crash"},
            {"name": "pool-sim", "path": "scn/pool.c", "serves_properties": ["C09"], "kind_free_text": "real threadpool.c under the simos scheduler, many runs per process"},
            {"name": "blockproc-sim", "path": "scn/blockproc.c + py/blockproc.py", "serves_properties": ["C02", "C08", "C09", "C13"],
             "kind_free_text": "real block processor + block writer + fragment table + thread pool in-process over an in-memory image under the simos scheduler; "
                               "serial-pool reference, hand decoding of every file, fault at the k-th allocation / compressor call / image write; second stage of the four checks"},
        ],
        "checks": [CHECKS[k] for k in sorted(CHECKS)],
        "not_applicable": sorted(na, key=lambda x: x["property_id"]),
        "notes": "Technique: deterministic simulation with fault injection. See DESIGN.md.",
    }
    with open(os.path.join(VERIF, "MANIFEST.json"), "w") as f:
        json.dump(m, f, indent=1)
        f.write("\n")

if __name__ == "__main__":
    main()
