"""C15 — stream compression of tar input/output is transparent.

tool-sim:
 (a) tar2sqfs: the same archive plain and wrapped in gzip / xz / bzip2 / zstd (levels, single stream,
     members split at arbitrary offsets) fed through seeded stdin chunkings => identical image.
 (b) must-error: truncation of the compressed stream at seeded offsets, byte flips inside the
     integrity-checked payload => exit != 0, or the very same image; never exit 0 with another tree;
     bounded termination (CPU limit) - a decoder that spins is a violation.
 (c) sqfs2tar --compressor X under short writes: output expanded by the reference decompressor
     (Python zlib/lzma/bz2, libzstd via ctypes) == plain sqfs2tar output.
"""
import os, sys, json, re, hashlib, gzip, bz2, lzma, zlib, subprocess, shutil
from common import *
import vfbuild, pipelines, tarmodel, sqfsdec, zstdlib

PROP = "C15"
CODECS = ["gzip", "xz", "bzip2", "zstd"]


def compress(codec, data, r):
    if codec == "gzip":
        return gzip.compress(data, r.choice([1, 6, 9]), mtime=0)
    if codec == "xz":
        return lzma.compress(data, format=lzma.FORMAT_XZ, preset=r.choice([0, 6]), check=r.choice([lzma.CHECK_CRC32, lzma.CHECK_CRC64, lzma.CHECK_SHA256]))
    if codec == "bzip2":
        return bz2.compress(data, r.choice([1, 9]))
    if codec == "zstd":
        return zstdlib.compress(data, r.choice([1, 3, 19]))
    raise ValueError(codec)


def decompress(codec, blob):
    if codec == "gzip":
        out = b""
        while blob:
            d = zlib.decompressobj(31)
            out += d.decompress(blob)
            if not d.eof:
                raise ValueError("gzip stream truncated")
            blob = d.unused_data
        return out
    if codec == "xz":
        return lzma.decompress(blob, format=lzma.FORMAT_XZ)
    if codec == "bzip2":
        return bz2.decompress(blob)
    if codec == "zstd":
        return zstdlib.decompress(blob)
    raise ValueError(codec)


def members(codec, data, r):
    """the archive as 2..4 concatenated compressed members, split at arbitrary offsets (also inside a tar header)"""
    n = r.choice([2, 3, 4])
    cuts = sorted(r.sample(range(1, len(data)), min(n - 1, len(data) - 1)))
    if r.random() < 0.5:
        cuts[0] = min(cuts[0], r.choice([1, 100, 511, 513]))
        cuts = sorted(set(cuts))
    if r.random() < 0.4:
        # members that end exactly on 512 byte record boundaries (what `cat a.tar.gz b.tar.gz` style producers emit)
        cuts = sorted(set(max(512, min(len(data) - 512, (c // 512) * 512)) for c in cuts)) if len(data) > 1024 else cuts
    parts = [data[a:b] for a, b in zip([0] + cuts, cuts + [len(data)])]
    if r.random() < 0.5:
        # zero-length members: legal in every one of the formats, the reference decompressors skip them
        for _ in range(r.choice([1, 1, 2])):
            parts.insert(r.choice([0, len(parts), r.randrange(len(parts) + 1)]), b"")
    return b"".join(compress(codec, p, r) for p in parts), cuts


def chunk_plan(r):
    lines = ["seed %d" % r.randrange(1, 1 << 62), "sched rr"]
    ch = r.choice([None, 1, 2, 7, 511, 513, 4095, 131071, 0])
    if ch is not None:
        lines.append("chunk stdin %d" % ch)
    if r.random() < 0.4:
        lines.append("rate read stdin eintr %d" % r.choice([50, 200]))
    if r.random() < 0.4:
        lines.append("rate write stdout short %d" % r.choice([100, 600]))
    return "\n".join(lines) + "\n"


def t2s(bdir, s, src, plan, variant="plain", cpu=20):
    c = pipelines.Case(0, "tar2sqfs")
    c.tool = "tar2sqfs"
    c.stdin = src
    c.out_image = "out.sqfs"
    c.outputs = {"image": "out.sqfs"}
    c.argv = ["-c", "gzip", "-b", "4096", "-q", "-j", "1", "out.sqfs"]
    return pipelines.run_case(bdir, c, s, plan, variant, timeout=60, cpu=cpu)


def work(a):
    bdir, seed, prof = a
    res = {"runs": 0, "viol": [], "err": None, "case": None, "transparent": 0, "must_error": 0, "rejected": 0, "harmless": 0, "out_ok": 0,
           "codecs": {}, "boundary_hits": 0, "tail_exact": 0}
    r = rng(seed, "c15")

    def V(clause, detail, **kw):
        res["viol"].append(dict(clause=clause, detail=detail[:400], **kw))

    try:
        with Scratch("c15") as s:
            model = tarmodel.gen_archive_model(r, nfiles=prof.get("nfiles", 6), ndirs=2, xattrs=prof.get("xattrs", False), sparse=False,
                                               big=prof.get("big", False))
            data, kept = tarmodel.emit_archive(model, r.choice(["ustar", "gnu", "pax"]), r)
            names = set(tarmodel.canon(e.name) for e in kept if e.type != "hlink")
            kept = [e for e in kept if not (e.type == "hlink" and tarmodel.canon(e.target) not in names)]
            data, kept = tarmodel.emit_archive(kept, "pax", r)
            if prof.get("pad_to"):
                # aim at the 128 KiB file buffer / 256 KiB xfrm buffer boundaries
                fill = tarmodel.TEntry(b"zz_fill", "file", content=r.randbytes(max(0, prof["pad_to"] + r.choice([-600, -1, 0, 1, 700]) - len(data))))
                data, kept = tarmodel.emit_archive(kept + [fill], "pax", r)
            if prof.get("tail_exact"):
                # the end-of-archive marker ends exactly on a multiple of the 256 KiB buffer of the decompressing stream: the tar reader
                # has everything it asks for before the decompressor reaches the check sum at the end of its block / member / frame
                target = 262144 * prof["tail_exact"]
                base = [e for e in kept if e.name != b"zz_fill"]
                flen = max(512, (target - len(data) - 2048) // 512 * 512)
                for _ in range(4):
                    fill = tarmodel.TEntry(b"zz_fill", "file", content=r.randbytes(flen))
                    data, kept = tarmodel.emit_archive(base + [fill], "pax", r)
                    if len(data) == target or flen + target - len(data) < 512:
                        break
                    flen += target - len(data)
                res["tail_exact"] = int(len(data) == target)
            if prof.get("tail_pad"):
                # zero records behind the end-of-archive marker, as every blocking factor > 1 leaves them (GNU tar pads to 10 KiB by
                # default, -b 2048 to 1 MiB): the tar reader is done before the decompressor has seen the end of its stream
                fill = tarmodel.TEntry(b"zz_fill", "file", content=r.randbytes(r.randrange(60000, 200000)))
                data, kept = tarmodel.emit_archive(kept + [fill], "pax", r)
                data += bytes(512 * r.choice([18, 40, 513, 600, 1100]))
                res["tail_pad"] = 1
            open(os.path.join(s, "in.tar"), "wb").write(data)
            res["case"] = {"seed": seed, "profile": prof, "archive_bytes": len(data), "members": len(kept)}
            ref = t2s(bdir, s, "in.tar", "seed 1\nsched rr\n")
            res["runs"] += 1
            if ref.rc != 0:
                res["err"] = "plain archive refused: %s" % ref.stderr[-200:]
                return res
            ref_sha = ref.hashes["image"]
            for codec in CODECS:
                res["codecs"][codec] = res["codecs"].get(codec, 0) + 1
                variants = [("single", compress(codec, data, r), None)]
                mb, cuts = members(codec, data, r)
                variants.append(("members", mb, cuts))
                for vname, blob, cuts in variants:
                    open(os.path.join(s, "in.z"), "wb").write(blob)
                    for k in range(2):
                        plan = chunk_plan(r)
                        o = t2s(bdir, s, "in.z", plan, "asan" if k == 1 else "plain")
                        res["runs"] += 1
                        if o.verdict != "exit:0" or o.hashes["image"] != ref_sha:
                            what = "hang" if o.timeout else ("crash" if not o.verdict.startswith("exit:") or o.rc == 77 else ("refused" if o.rc else "image-differs"))
                            V("tar2sqfs:%s:%s:%s" % (codec, vname, what), "%s input (%s, cuts %s): %s %s" % (codec, vname, cuts, o.verdict, o.stderr[-150:].decode(errors="replace")),
                              kind="transparent", codec=codec, vname=vname, plan=plan, cuts=cuts)
                        else:
                            res["transparent"] += 1
                # ---- must-error: truncation / corruption of the single stream
                blob = variants[0][1]
                faults = []
                for _ in range(3):
                    faults.append(("truncate", r.choice([1, len(blob) // 3, len(blob) // 2, len(blob) - 9, len(blob) - 1, r.randrange(1, len(blob))])))
                for _ in range(3):
                    faults.append(("flip", r.randrange(min(40, len(blob) - 1), len(blob))))
                if prof.get("tail_exact") or prof.get("tail_pad"):
                    # damage whose only witness is the check sum at the end (incompressible content: stored / literal bytes)
                    for _ in range(4):
                        faults.append(("flip", r.randrange(len(blob) // 8, len(blob) // 2) if prof.get("tail_pad") else r.randrange(len(blob) // 2, len(blob) - 16)))
                if codec == "gzip":
                    # a complete member followed by a member that is cut right behind a sync flush placed on an entry boundary: everything
                    # decoded so far is a well-formed shorter archive, only the missing end-of-stream marker says that input is missing
                    offs = sorted(set(m[0] for m in tarmodel.walk(data)) - {0})
                    if len(offs) >= 2:
                        e1, e2 = sorted(r.sample(offs, 2))
                        co = zlib.compressobj(6, zlib.DEFLATED, 31)
                        part = co.compress(data[e1:e2]) + co.flush(zlib.Z_SYNC_FLUSH)
                        faults.append(("flushcut", gzip.compress(data[:e1], 6, mtime=0) + part))
                for kind, pos in faults:
                    if kind == "flushcut":
                        bad, pos = pos, len(pos)
                    elif kind == "truncate":
                        bad = blob[:pos]
                    else:
                        bad = bytearray(blob)
                        bad[pos] ^= 1 << r.randrange(8)
                        bad = bytes(bad)
                    # does the reference decompressor still deliver the full archive? then nothing is wrong with accepting it
                    try:
                        dec = decompress(codec, bad)
                    except Exception:
                        dec = None
                    open(os.path.join(s, "bad.z"), "wb").write(bad)
                    o = t2s(bdir, s, "bad.z", "seed 1\nsched rr\n", "asan", cpu=15)
                    res["runs"] += 1
                    res["must_error"] += 1
                    desc = "%s stream %s at byte %d of %d" % (codec, {"truncate": "cut", "flushcut": "of two members, the second cut behind a sync flush on an entry boundary,"}.get(kind, "bit-flipped"), pos, len(blob))
                    if o.timeout:
                        V("tar2sqfs:%s:%s:hang" % (codec, kind), desc + ": no termination within the CPU limit", kind="must-error", codec=codec, fault=(kind, pos))
                    elif not o.verdict.startswith("exit:") or o.rc == 77 or o.rc >= 70:
                        V("tar2sqfs:%s:%s:crash" % (codec, kind), desc + ": " + o.verdict + " " + o.stderr[-200:].decode(errors="replace"), kind="must-error", codec=codec, fault=(kind, pos))
                    elif o.rc != 0:
                        res["rejected"] += 1
                        if o.image_exists:
                            V("tar2sqfs:%s:%s:output-left-behind" % (codec, kind), desc, kind="must-error", codec=codec, fault=(kind, pos))
                    elif o.hashes["image"] == ref_sha:
                        res["harmless"] += 1
                    elif dec is not None:
                        # the reference decompressor accepts the damaged stream as well (the damage hit bytes no check covers, or its
                        # decoded archive is unchanged): nothing the tool could have noticed
                        res["harmless"] += 1
                    else:
                        V("tar2sqfs:%s:%s:accepted-as-other-archive" % (codec, kind), desc + ": exit 0 with a different image", kind="must-error", codec=codec, fault=(kind, pos))
            # ---- (c) sqfs2tar -c X
            c = pipelines.Case(0, "sqfs2tar")
            c.tool = "sqfs2tar"
            c.outputs = {"stdout": None}
            shutil.copyfile(os.path.join(s, "out.sqfs"), os.path.join(s, "img.sqfs")) if os.path.exists(os.path.join(s, "out.sqfs")) else None
            t2s(bdir, s, "in.tar", "seed 1\nsched rr\n")
            shutil.copyfile(os.path.join(s, "out.sqfs"), os.path.join(s, "img.sqfs"))
            c.argv = ["img.sqfs"]
            po = pipelines.run_case(bdir, c, s, "seed 1\nsched rr\n")
            plain = open(os.path.join(s, ".stdout"), "rb").read()
            # aim the *uncompressed tar stream* of sqfs2tar at the 256 KiB buffer of the compressing ostream: k * 256 KiB and one
            # record either side (a flush that finds its buffer just drained / just filled is the interesting state)
            targets = []
            if prof.get("out_boundary"):
                import struct
                base = len(plain)
                for tgt in (262144, 524288, 262144 - 512, 262144 + 512):
                    need = tgt - base - 512
                    if need <= 0:
                        continue
                    fill = tarmodel.TEntry(b"zz_out_fill", "file", content=r.randbytes(need))
                    d2, _k = tarmodel.emit_archive(kept + [fill], "pax", r)
                    open(os.path.join(s, "in2.tar"), "wb").write(d2)
                    t2s(bdir, s, "in2.tar", "seed 1\nsched rr\n")
                    nm = "img_%d.sqfs" % tgt
                    shutil.copyfile(os.path.join(s, "out.sqfs"), os.path.join(s, nm))
                    c.argv = [nm]
                    pipelines.run_case(bdir, c, s, "seed 1\nsched rr\n")
                    pl = open(os.path.join(s, ".stdout"), "rb").read()
                    targets.append((nm, pl, len(pl) == tgt))
                res["case"]["sqfs2tar_output_sizes"] = [len(t[1]) for t in targets]
                res["boundary_hits"] = sum(1 for t in targets if t[2])
            for nm, pl, _hit in targets:
                for codec in CODECS:
                    c.argv = ["-c", codec, nm]
                    o = pipelines.run_case(bdir, c, s, chunk_plan(r))
                    res["runs"] += 1
                    blob = open(os.path.join(s, ".stdout"), "rb").read()
                    if o.rc != 0:
                        V("sqfs2tar:%s:failed" % codec, "%d byte tar stream: %s %s" % (len(pl), o.verdict, o.stderr[-200:].decode(errors="replace")), kind="out", codec=codec)
                        continue
                    try:
                        dec = decompress(codec, blob)
                    except Exception as e:
                        V("sqfs2tar:%s:reference-decompressor-rejects-output" % codec, "%d byte tar stream: %s: %s" % (len(pl), type(e).__name__, e), kind="out", codec=codec)
                        continue
                    if dec != pl:
                        V("sqfs2tar:%s:expands-to-different-bytes" % codec, "%d vs %d bytes" % (len(dec), len(pl)), kind="out", codec=codec)
                    else:
                        res["out_ok"] += 1
            for codec in CODECS:
                c.argv = ["-c", codec, "img.sqfs"]
                o = pipelines.run_case(bdir, c, s, chunk_plan(r))
                res["runs"] += 1
                blob = open(os.path.join(s, ".stdout"), "rb").read()
                if o.rc != 0:
                    V("sqfs2tar:%s:failed" % codec, o.verdict + " " + o.stderr[-200:].decode(errors="replace"), kind="out", codec=codec)
                    continue
                try:
                    dec = decompress(codec, blob)
                except Exception as e:
                    V("sqfs2tar:%s:reference-decompressor-rejects-output" % codec, "%s: %s" % (type(e).__name__, e), kind="out", codec=codec)
                    continue
                if dec != plain:
                    V("sqfs2tar:%s:expands-to-different-bytes" % codec, "%d vs %d bytes" % (len(dec), len(plain)), kind="out", codec=codec)
                else:
                    res["out_ok"] += 1
    except Exception as e:
        import traceback
        res["err"] = "%s: %s %s" % (type(e).__name__, e, traceback.format_exc()[-400:])
    return res


PROFILES = [{"nfiles": 6}, {"nfiles": 5, "xattrs": True}, {"nfiles": 8, "big": True}, {"nfiles": 3, "pad_to": 131072}, {"nfiles": 3, "pad_to": 262144},
            {"nfiles": 3, "out_boundary": True}, {"nfiles": 2, "tail_exact": 1}, {"nfiles": 2, "tail_pad": True}]


def replay(spec, bdir=None):
    bdir = bdir or vfbuild.build()
    r = work((bdir, spec["seed"], spec["profile"]))
    found = [v for v in r["viol"] if v["clause"] == spec["clause"]]
    print("replay: %s -> %s" % (spec["clause"], "REPRODUCED: " + found[0]["detail"] if found else "not reproduced (%s)" % (r["err"])))
    return 1 if found else 0


def main():
    t = tier()
    seed = master_seed()
    rep = Report(PROP, "exploration")
    bdir = vfbuild.build()
    n = 40 if t == "quick" else 1500
    items = [(bdir, derive(seed, "c15", i) >> 1, PROFILES[i % len(PROFILES)]) for i in range(n)]
    results = list(pmap_unordered(work, items))
    for r in results:
        if r["err"]:
            rep.harness_error(r["err"])
    seen = {}
    for r in results:
        for v in r["viol"]:
            seen.setdefault(v["clause"], (r, v))
    for key, (r, v) in sorted(seen.items()):
        again = work((bdir, r["case"]["seed"], r["case"]["profile"]))
        if not [x for x in again["viol"] if x["clause"] == v["clause"]]:
            rep.harness_error("violation %s did not reproduce" % key)
            continue
        spec = {"property": PROP, "seed": r["case"]["seed"], "profile": r["case"]["profile"], "clause": v["clause"], "detail": v["detail"],
                "fault": v.get("fault"), "plan": v.get("plan")}
        rep.violation(key, v["detail"], rep.write_replay("c15", spec))
    cov = {
        "evaluations": sum(r["runs"] for r in results),
        "distinct_nontrivial": sum(r["transparent"] + r["must_error"] + r["out_ok"] for r in results),
        "rule": "one evaluation = one tool run: tar2sqfs on (archive x codec x member split x chunking), tar2sqfs on a truncated / bit-flipped "
                "compressed stream, or sqfs2tar -c X; every run has its own seed-derived variant, all are counted as distinct non-trivial "
                "except the per-archive reference runs",
        "samples": [r["case"] for r in results[:3] if r["case"]],
        "archives": len(results),
        "transparent_runs_equal_to_plain": sum(r["transparent"] for r in results),
        "faults_fired": {"truncated_or_flipped_streams": sum(r["must_error"] for r in results), "rejected": sum(r["rejected"] for r in results),
                         "harmless_same_image_or_reference_decoder_unaffected": sum(r["harmless"] for r in results)},
        "sqfs2tar_compressed_outputs_verified": sum(r["out_ok"] for r in results),
        "sqfs2tar_outputs_exactly_on_a_256KiB_multiple": sum(r["boundary_hits"] for r in results),
        "archives_ending_exactly_on_a_256KiB_multiple": sum(r.get("tail_exact", 0) for r in results),
        "archives_with_zero_records_behind_the_end_marker": sum(r.get("tail_pad", 0) for r in results),
        "components_real": ["tar2sqfs, sqfs2tar, lib/xfrm stream (de)compressors, codec libraries"],
        "components_simulated": ["stdin chunking, EINTR, short stdout writes; stored-byte faults on the compressed stream (truncate, flip)"],
    }
    if cov["sqfs2tar_outputs_exactly_on_a_256KiB_multiple"] == 0:
        rep.harness_error("insufficient reach: no sqfs2tar output landed exactly on a multiple of the 256 KiB stream buffer")
    if cov["archives_ending_exactly_on_a_256KiB_multiple"] == 0:
        rep.harness_error("insufficient reach: no archive ended exactly on a multiple of the 256 KiB stream buffer")
    return rep.finish(cov, ["reference decompressors: Python zlib/lzma/bz2 and the libzstd via ctypes",
                            "a flipped byte the reference decompressor does not notice (same decoded archive) is not required to be detected"])


if __name__ == "__main__":
    sys.exit(main())
