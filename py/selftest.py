"""Self tests of the harness.
   ./vf selftest mutants [name-substring ...]   apply each /verif/mutants/*.patch to a scratch copy of /repo,
                                                run the owning property's quick check, expect a VIOLATION
   ./vf selftest determinism                    run checks twice with the same seed / other worker counts and
                                                compare evidence digests
"""
import os, sys, subprocess, glob, re, shutil, json, time
VERIF = os.path.dirname(os.path.dirname(os.path.abspath(__file__)))


def scratch_repo(tag):
    d = "/dev/shm/vf-mut-%d-%s" % (os.getpid(), tag)
    shutil.rmtree(d, ignore_errors=True)
    os.makedirs(d)
    p1 = subprocess.Popen(["git", "-C", "/repo", "archive", "HEAD"], stdout=subprocess.PIPE)
    subprocess.check_call(["tar", "-x", "-C", d], stdin=p1.stdout)
    p1.wait()
    if os.path.exists("/repo/config.h"):
        shutil.copy("/repo/config.h", d)
    return d


def run_mutant(patch, props=None, env_extra=None):
    meta = open(patch).read(2000)
    m = re.search(r"^# property: (.*)$", meta, re.M)
    plist = props or (m.group(1).split() if m else [])
    name = os.path.basename(patch)[:-6]
    d = scratch_repo(name)
    try:
        r = subprocess.run(["patch", "-p1", "-s", "-d", d, "-i", patch], stdout=subprocess.PIPE, stderr=subprocess.STDOUT)
        if r.returncode != 0:
            return name, "PATCH-FAILED", r.stdout.decode()[-300:]
        out = []
        caught = False
        for prop in plist:
            env = dict(os.environ, VERIF_REPO=d, VERIF_TIER="quick")
            env.update(env_extra or {})
            t0 = time.time()
            p = subprocess.run([os.path.join(VERIF, "vf"), "check", prop], stdout=subprocess.PIPE, stderr=subprocess.STDOUT, env=env)
            txt = p.stdout.decode(errors="replace")
            v = [l for l in txt.splitlines() if l.startswith("VIOLATION")]
            out.append("%s: exit=%d violations=%d %.0fs" % (prop, p.returncode, len(v), time.time() - t0))
            if p.returncode == 1 and v:
                caught = True
                k = [l.strip() for l in txt.splitlines() if l.strip().startswith("key=")]
                out.append("   " + (k[0][:200] if k else ""))
            elif p.returncode not in (0, 1):
                out.append("   " + txt[-400:].replace("\n", "\n   "))
        return name, "CAUGHT" if caught else "MISSED", "\n".join(out)
    finally:
        shutil.rmtree(d, ignore_errors=True)


def main(argv):
    if argv and argv[0] == "mutants":
        pats = argv[1:]
        rc = 0
        for p in sorted(glob.glob(os.path.join(VERIF, "mutants", "*.patch")) + glob.glob(os.path.join(VERIF, "seeded", "*", "patch.diff"))):
            label = p
            if pats and not any(x in p for x in pats):
                continue
            if p.endswith("patch.diff"):
                meta = json.load(open(os.path.join(os.path.dirname(p), "meta.json")))
                name, res, detail = run_mutant_seeded(p, meta)
            else:
                name, res, detail = run_mutant(p)
            print("%-40s %s\n%s" % (name, res, detail))
            sys.stdout.flush()
            if res != "CAUGHT":
                rc = 1
        return rc
    print(__doc__)
    return 2


def run_mutant_seeded(patch, meta):
    name = os.path.basename(os.path.dirname(patch))
    d = scratch_repo(name)
    try:
        r = subprocess.run(["git", "apply", "--directory=" + d.lstrip("/"), "--unsafe-paths", patch], cwd="/", stdout=subprocess.PIPE, stderr=subprocess.STDOUT)
        if r.returncode != 0:
            r = subprocess.run(["patch", "-p1", "-s", "-d", d, "-i", patch], stdout=subprocess.PIPE, stderr=subprocess.STDOUT)
            if r.returncode != 0:
                return name, "PATCH-FAILED", r.stdout.decode()[-300:]
        out, caught = [], False
        for prop in meta.get("detected_by", [meta["property"]]):
            env = dict(os.environ, VERIF_REPO=d, VERIF_TIER="quick")
            t0 = time.time()
            p = subprocess.run([os.path.join(VERIF, "vf"), "check", prop], stdout=subprocess.PIPE, stderr=subprocess.STDOUT, env=env)
            txt = p.stdout.decode(errors="replace")
            v = [l for l in txt.splitlines() if l.startswith("VIOLATION")]
            out.append("%s: exit=%d violations=%d %.0fs" % (prop, p.returncode, len(v), time.time() - t0))
            if p.returncode == 1 and v:
                caught = True
        return name, "CAUGHT" if caught else "MISSED", "\n".join(out)
    finally:
        shutil.rmtree(d, ignore_errors=True)
