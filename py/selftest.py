"""Self tests of the harness.
   ./vf selftest mutants [name-substring ...]   apply each /verif/mutants/*.patch to a scratch copy of /repo,
                                                run the owning property's quick check, expect a VIOLATION
   ./vf selftest determinism                    run checks twice with the same seed / other worker counts and
                                                compare evidence digests
"""
import os, sys, subprocess, glob, re, shutil, json, time
VERIF = os.path.dirname(os.path.dirname(os.path.abspath(__file__)))


def scratch_repo(tag):
    d = "/dev/shm/vf-mut-%d-%s" % (os.getpid(), tag)
    shutil.rmtree(d, ignore_errors=True)
    os.makedirs(d)
    p1 = subprocess.Popen(["git", "-C", "/repo", "archive", "HEAD"], stdout=subprocess.PIPE)
    subprocess.check_call(["tar", "-x", "-C", d], stdin=p1.stdout)
    p1.wait()
    if os.path.exists("/repo/config.h"):
        shutil.copy("/repo/config.h", d)
    return d


def run_mutant(patch, props=None, env_extra=None):
    meta = open(patch).read(2000)
    m = re.search(r"^# property: (.*)$", meta, re.M)
    plist = props or (m.group(1).split() if m else [])
    name = os.path.basename(patch)[:-6]
    d = scratch_repo(name)
    try:
        r = subprocess.run(["patch", "-p1", "-s", "-d", d, "-i", patch], stdout=subprocess.PIPE, stderr=subprocess.STDOUT)
        if r.returncode != 0:
            return name, "PATCH-FAILED", r.stdout.decode()[-300:]
        out = []
        caught = False
        for prop in plist:
            env = dict(os.environ, VERIF_REPO=d, VERIF_TIER="quick")
            env.update(env_extra or {})
            t0 = time.time()
            p = subprocess.run([os.path.join(VERIF, "vf"), "check", prop], stdout=subprocess.PIPE, stderr=subprocess.STDOUT, env=env)
            txt = p.stdout.decode(errors="replace")
            v = [l for l in txt.splitlines() if l.startswith("VIOLATION")]
            out.append("%s: exit=%d violations=%d %.0fs" % (prop, p.returncode, len(v), time.time() - t0))
            if p.returncode == 1 and v:
                caught = True
                k = [l.strip() for l in txt.splitlines() if l.strip().startswith("key=")]
                out.append("   " + (k[0][:200] if k else ""))
            elif p.returncode not in (0, 1):
                out.append("   " + txt[-400:].replace("\n", "\n   "))
        return name, "CAUGHT" if caught else "MISSED", "\n".join(out)
    finally:
        shutil.rmtree(d, ignore_errors=True)


def determinism():
    """same seed => same traces: scenario engines in separate processes and chunkings, tool runs twice, and whole checks under
    different worker counts / PYTHONHASHSEED values (their evidence must carry identical counters)"""
    sys.path.insert(0, os.path.join(VERIF, "py"))
    import vfbuild, common, pipelines, c12, c10
    bdir = vfbuild.build()
    bad = 0

    def agg(cmd):
        out = subprocess.run(cmd, stdout=subprocess.PIPE, stderr=subprocess.PIPE).stdout.decode()
        m = re.findall(r"agg=([0-9a-f]+)", out)
        return m[-1] if m else None
    pool = os.path.join(bdir, "plain", "scn-pool")
    a = [agg([pool, "run", "7", str(i * 5000), str(i * 5000 + 5000)]) for i in range(4)]
    b = [agg([pool, "run", "7", str(i * 5000), str(i * 5000 + 5000)]) for i in range(4)]
    print("pool-sim   20000 runs in 4 chunks, twice:", "identical" if a == b and None not in a else "DIFFERENT %r %r" % (a, b))
    bad += a != b or None in a
    bp = os.path.join(bdir, "plain", "scn-blockproc")
    import hashlib as _h
    def whole(cmd):
        p = subprocess.run(cmd, stdout=subprocess.PIPE, stderr=subprocess.PIPE, timeout=1800)
        return p.returncode, _h.sha256(p.stdout).hexdigest()
    x, y = whole([bp, "run", "11", "0", "30"]), whole([bp, "run", "11", "0", "30"])
    print("blockproc  30 workloads x 24 variants twice (every RUN/VIOL/STAT line):", "identical" if x == y and x[0] == 0 else "DIFFERENT %r %r" % (x, y))
    bad += x != y or x[0] != 0
    with common.Scratch("det") as cd:
        images, _ = c10.make_images(bdir, 4242, cd, 1)
        for eng in ("scn-reader", "scn-copy"):
            for name, valid, _d in images[:1]:
                cmd = [os.path.join(bdir, "plain", eng), "run", os.path.join(cd, name), "9", "0", "400"]
                x, y = agg(cmd), agg(cmd)
                print("%-10s 400 runs twice:" % eng, "identical" if x == y and x else "DIFFERENT %r %r" % (x, y))
                bad += x != y or not x
    # tool level: same plan twice => same trace hash, verdict, outputs
    n = 0
    diff = 0
    for kind, prof, ncases, nruns in c12.QUICK[::3]:
        seed = common.derive(99, kind) >> 1
        with common.Scratch("det") as s:
            cd = os.path.join(s, "case")
            case = pipelines.build_case(bdir, seed, kind, prof, cd)
            for i in range(12):
                plan = c12.gen_plan(common.rng(seed, "p", i))
                o1 = pipelines.run_case(bdir, case, cd, plan)
                k1 = (o1.trace.hash, o1.key())
                o2 = pipelines.run_case(bdir, case, cd, plan)
                n += 1
                if k1 != (o2.trace.hash, o2.key()):
                    diff += 1
                    print("  tool run differs:", kind, i, k1[0], o2.trace.hash)
    print("tool-sim   %d (pipeline, plan) pairs run twice: %d differ" % (n, diff))
    bad += diff
    # whole checks under different worker counts / hash seeds: evidence counters must match
    import json
    for prop in ("C12", "C14"):
        sig = []
        for env in ({"VERIF_WORKERS": "16", "PYTHONHASHSEED": "1"}, {"VERIF_WORKERS": "3", "PYTHONHASHSEED": "77"}):
            subprocess.run([os.path.join(VERIF, "vf"), "check", prop], stdout=subprocess.PIPE, stderr=subprocess.PIPE, env=dict(os.environ, **env))
            ev = json.load(open(os.path.join(VERIF, "evidence", prop + ".json")))
            c = ev["coverage"]
            sig.append((c["evaluations"], c["distinct_nontrivial"], json.dumps(c.get("faults_fired", c.get("states_rejected_by_all_readers")), sort_keys=True)))
        print("%s        16 workers vs 3 workers / other PYTHONHASHSEED:" % prop, "identical counters" if sig[0] == sig[1] else "DIFFERENT %r" % (sig,))
        bad += sig[0] != sig[1]
    return 1 if bad else 0


def main(argv):
    if argv and argv[0] == "determinism":
        return determinism()
    if argv and argv[0] == "mutants":
        pats = argv[1:]
        rc = 0
        for p in sorted(glob.glob(os.path.join(VERIF, "mutants", "*.patch")) + glob.glob(os.path.join(VERIF, "seeded", "*", "patch.diff"))):
            label = p
            if pats and not any(x in p for x in pats):
                continue
            if p.endswith("patch.diff"):
                meta = json.load(open(os.path.join(os.path.dirname(p), "meta.json")))
                name, res, detail = run_mutant_seeded(p, meta)
            else:
                name, res, detail = run_mutant(p)
            print("%-40s %s\n%s" % (name, res, detail))
            sys.stdout.flush()
            if res != "CAUGHT":
                rc = 1
        return rc
    print(__doc__)
    return 2


def run_mutant_seeded(patch, meta):
    name = os.path.basename(os.path.dirname(patch))
    d = scratch_repo(name)
    try:
        r = subprocess.run(["git", "apply", "--directory=" + d.lstrip("/"), "--unsafe-paths", patch], cwd="/", stdout=subprocess.PIPE, stderr=subprocess.STDOUT)
        if r.returncode != 0:
            r = subprocess.run(["patch", "-p1", "-s", "-d", d, "-i", patch], stdout=subprocess.PIPE, stderr=subprocess.STDOUT)
            if r.returncode != 0:
                return name, "PATCH-FAILED", r.stdout.decode()[-300:]
        out, caught = [], False
        for prop in meta.get("detected_by", [meta["property"]]):
            env = dict(os.environ, VERIF_REPO=d, VERIF_TIER="quick")
            t0 = time.time()
            p = subprocess.run([os.path.join(VERIF, "vf"), "check", prop], stdout=subprocess.PIPE, stderr=subprocess.STDOUT, env=env)
            txt = p.stdout.decode(errors="replace")
            v = [l for l in txt.splitlines() if l.startswith("VIOLATION")]
            out.append("%s: exit=%d violations=%d %.0fs" % (prop, p.returncode, len(v), time.time() - t0))
            if p.returncode == 1 and v:
                caught = True
        return name, "CAUGHT" if caught else "MISSED", "\n".join(out)
    finally:
        shutil.rmtree(d, ignore_errors=True)
