"""C11 — packing a directory is independent of the host's enumeration order.

tool-sim: the readdir seam collects the real entries of every directory, sorts them (so the host's
own order cannot leak) and applies a seeded permutation (identity, reverse, K random). gensquashfs
--pack-dir (and glob lines of a pack file) must produce a byte-identical image for every permutation.
"""
import os, sys, json, re
from common import *
import vfbuild, pipelines, treegen

PROP = "C11"
QUICK = [
    ("gen-packdir", {"nfiles": 8, "ndirs": 3, "bs": 4096, "hardlinks": True, "xattrs": "safe"}, 30),
    ("gen-packdir", {"nfiles": 6, "ndirs": 4, "bs": 4096, "hardlinks": True, "nohl": True}, 10),
    ("gen-packdir", {"nfiles": 10, "ndirs": 2, "bs": 4096, "big": True}, 10),
    ("gen-packdir", {"nfiles": 12, "ndirs": 2, "bs": 4096, "hostile": True, "nohl": True}, 14),
    ("gen-glob", {"nfiles": 12, "ndirs": 2, "bs": 4096, "hostile": True, "nohl": True}, 6),
    ("gen-glob", {"nfiles": 8, "ndirs": 3, "bs": 4096, "hardlinks": True, "nohl": True}, 10),
    ("gen-glob", {"nfiles": 8, "ndirs": 3, "bs": 4096}, 10),
    ("gen-packdir", {"nfiles": 10, "ndirs": 5, "bs": 4096, "nohl": True, "xdev": True}, 16),
    ("gen-packdir", {"nfiles": 4, "ndirs": 4, "bs": 4096, "nohl": True, "samenames": True, "specials": False}, 24),
    ("gen-glob", {"nfiles": 4, "ndirs": 4, "bs": 4096, "nohl": True, "samenames": True, "specials": False}, 8),
    ("gen-glob-partial", {"nfiles": 10, "ndirs": 6, "bs": 4096, "nohl": True}, 24),
    ("gen-glob-named", {"nfiles": 4, "ndirs": 2, "bs": 4096, "nohl": True, "specials": False}, 6),
    ("gen-glob-partial", {"nfiles": 14, "ndirs": 9, "bs": 4096, "specials": True, "nohl": True}, 12),
]
NPERM = 8


def build(bdir, seed, kind, prof, cd):
    if kind == "gen-packdir":
        case = pipelines.build_case(bdir, seed, "gen-packdir", prof, cd)
        if prof.get("nohl"):
            case.argv = case.argv[:-1] + ["-H", case.argv[-1]]
        if prof.get("xdev"):
            # --one-file-system over a tree with a (simulated) mount point: one directory and everything below it report another
            # device number (simos `fakedev`); which entries survive must not depend on the order readdir returns them in
            dirs = sorted(e.path for e in case.ents if e.type == treegen.DIR and b"/" not in e.path and re.match(rb"^[A-Za-z0-9_.,+=-]+$", e.path))
            if dirs:
                case.fakedev = os.fsdecode(rng(seed, "xdev").choice(dirs))
                case.argv = case.argv[:-1] + ["-o", case.argv[-1]]
        return case
    # glob lines of a pack file over a real directory
    case = pipelines.build_case(bdir, seed, "gen-packdir", prof, cd)
    r = rng(seed, "glob")
    if kind == "gen-glob-partial":
        # only SOME directories are declared, globs filter by type / name: entries whose parent is not in the tree are dropped
        # (documented) - whether they are dropped must not depend on the order in which the scan meets them
        dirs = sorted((e.path for e in case.ents if e.type == treegen.DIR), key=lambda p: (p.count(b"/"), p))
        declared = set()
        lines = []
        for d in dirs:
            parent = d.rsplit(b"/", 1)[0] if b"/" in d else None
            if (parent is None or parent in declared) and r.random() < 0.6:
                declared.add(d)
                lines.append(b"dir %s 0755 0 0" % treegen.quote(b"/" + d))
        style = r.randrange(4)
        if style == 0:
            lines.append(b"glob / 0644 0 0 -type f -- ./tree")
        elif style == 1:
            lines.append(b"glob / * * * -type d -name \"*%s*\" -- ./tree" % bytes([r.choice(b"abcdefghijklmnopqrstuvwxyz0123456789")]))
            lines.append(b"glob / * * * -type f -- ./tree")
        elif style == 2:
            lines.append(b"glob / * * * -type f -name \"*%s*\" -- ./tree" % bytes([r.choice(b"abcdefghijklmnopqrstuvwxyz0123456789")]))
            lines.append(b"glob / 0777 0 0 -type l -- ./tree")
        else:
            lines.append(b"glob / * * * -not -type d -- ./tree" if False else b"glob / * * * -type f -- ./tree")
            lines.append(b"glob / * * * -type p -- ./tree")
        with open(os.path.join(cd, "pack.txt"), "wb") as f:
            f.write(b"\n".join(lines) + b"\n")
        opts = [a for a in case.argv[:-1] if a not in ("-D", "tree", "-k", "-x")]
        case.argv = opts + ["-F", "pack.txt", "-D", ".", case.argv[-1]]
        return case
    if kind == "gen-glob-named":
        # -name with a literal directory name while siblings carry that name as a prefix / suffix / with another case: which of them end
        # up in the image must not depend on whether readdir returns them before or after the directory that matches
        base = r.choice([b"fonts", b"lib", b"a"])
        tree = os.path.join(cd, "tree")
        for i, nm in enumerate([base, base + b"-extra", base + b"64", base[:-1] or b"_", b"x" + base, base.upper(), base + b".d"]):
            d = os.path.join(os.fsencode(tree), nm)
            if not os.path.lexists(d):
                os.mkdir(d)
                os.mkdir(os.path.join(d, b"sub"))
                for j in range(2):
                    with open(os.path.join(d, b"sub" if j else b"", b"f%d" % j), "wb") as f:
                        f.write(b"%d/%d" % (i, j))
                for x in (os.path.join(d, b"sub", b"f1"), os.path.join(d, b"f0"), os.path.join(d, b"sub"), d):
                    os.utime(x, (1000, 1000))
        os.utime(tree, (1000, 1000))
        hl = b" -nohardlinks" if prof.get("nohl") else b""
        lines = [b"glob / * * * -name \"%s\"%s -- ./tree" % (base, hl)]
        if r.random() < 0.5:
            lines.append(b"glob / * * * -type f -name \"f0\"%s -- ./tree" % hl)
        with open(os.path.join(cd, "pack.txt"), "wb") as f:
            f.write(b"\n".join(lines) + b"\n")
        opts = [a for a in case.argv[:-1] if a not in ("-D", "tree", "-k", "-x")]
        case.argv = opts + ["-F", "pack.txt", "-D", ".", case.argv[-1]]
        return case
    hl = b" -nohardlinks" if prof.get("nohl") else b""
    lines = [b"dir /x 0755 0 0", b"glob /x * * * -type d" + hl + b" ./tree", b"glob /x * * * -type f" + hl + b" ./tree",
             b"glob /x 0777 0 0 -type l" + hl + b" ./tree"]
    with open(os.path.join(cd, "pack.txt"), "wb") as f:
        f.write(b"\n".join(lines) + b"\n")
    opts = [a for a in case.argv[:-1] if a not in ("-D", "tree", "-k", "-x")]
    case.argv = opts + ["-F", "pack.txt", "-D", ".", case.argv[-1]]
    return case


def plan_for(perm, case=None):
    extra = "fakedev %s 4242\n" % case.fakedev if getattr(case, "fakedev", None) else ""
    return "seed 1\nsched rr\nreaddir %d\n" % perm + extra


def perms(seed):
    r = rng(seed, "perms")
    return [0, 1] + [r.randrange(2, 1 << 40) for _ in range(NPERM - 2)]


def work(a):
    bdir, caseseed, kind, prof = a
    res = {"runs": 0, "case": None, "mismatch": None, "err": None, "skip": None, "permuted_dirs": 0, "hashes": 0, "multi_linked": 0}
    try:
        with Scratch("c11") as s:
            cd = os.path.join(s, "case")
            try:
                case = build(bdir, caseseed, kind, prof, cd)
            except OSError as e:
                res["skip"] = "the host file system cannot hold this tree: %s" % str(e)[:80]      # not a packer matter
                return res
            res["case"] = dict(case.describe(), realkind=kind)
            seen = {}
            for p in perms(caseseed):
                o = pipelines.run_case(bdir, case, cd, plan_for(p, case))
                res["runs"] += 1
                for l in o.trace.lines:
                    m = re.match(r"N readdir_dirs \* (\d+) permuted (\d+)", l)
                    if m:
                        res["permuted_dirs"] += int(m.group(2))
                sig = (o.verdict, o.hashes.get("image"))
                seen.setdefault(sig, p)
                if o.rc != 0 and res["runs"] == 1:
                    res["skip"] = "packing failed: %s" % o.stderr[-200:]
                    return res
            res["hashes"] = len(seen)
            if len(seen) > 1:
                sigs = list(seen.items())
                res["mismatch"] = {"perm_a": sigs[0][1], "perm_b": sigs[1][1], "sig_a": sigs[0][0], "sig_b": sigs[1][0]}
    except Exception as e:
        res["err"] = "%s: %s" % (type(e).__name__, e)
    return res


def rerun(bdir, casespec, pa, pb, force_nohl=False):
    with Scratch("c11r") as s:
        cd = os.path.join(s, "case")
        prof = dict(casespec["profile"])
        if force_nohl:
            prof["nohl"] = True
        case = build(bdir, casespec["seed"], casespec["kind"], prof, cd)
        a = pipelines.run_case(bdir, case, cd, plan_for(pa, case), keep_image=os.path.join(s, "a.sqfs"))
        b = pipelines.run_case(bdir, case, cd, plan_for(pb, case))
        return (a.verdict, a.hashes.get("image")) != (b.verdict, b.hashes.get("image")), a, b


def feature_key(case_desc, bdir, casespec):
    """known-finding key: which feature of the tree the order dependence needs (decided by experiment)"""
    return "hardlinks" if case_desc["profile"].get("hardlinks") and not case_desc["profile"].get("nohl") else "plain"


def replay(spec, bdir=None):
    bdir = bdir or vfbuild.build(variants=("plain",))
    d, a, b = rerun(bdir, spec["case"], spec["perm_a"], spec["perm_b"])
    print("replay: readdir permutation %s -> %s ; permutation %s -> %s : %s" % (spec["perm_a"], a.hashes.get("image"), spec["perm_b"],
                                                                             b.hashes.get("image"), "REPRODUCED" if d else "not reproduced"))
    return 1 if d else 0


def main():
    t = tier()
    seed = master_seed()
    rep = Report(PROP, "exploration")
    bdir = vfbuild.build()
    mult = 1 if t == "quick" else 30
    items = []
    for kind, prof, n in QUICK:
        for i in range(n * mult):
            items.append((bdir, derive(seed, "c11", kind, json.dumps(prof, sort_keys=True), i) >> 1, kind, prof))
    results = list(pmap_unordered(work, items))
    skipped = [r for r in results if r["skip"]]
    if len(skipped) * 4 > len(results):
        rep.harness_error("too many trees whose packing fails: %s" % skipped[0]["skip"])
    for r in results:
        if r["err"]:
            rep.harness_error(r["err"])
    seen = {}
    for r in results:
        if r["mismatch"]:
            key = "%s:%s:%s" % (r["case"]["realkind"], "nohardlinks" if r["case"]["profile"].get("nohl") else "default",
                                "multiply-linked-files" if r["case"]["profile"].get("hardlinks") else "no-links")
            seen.setdefault(key, r)
    for key, r in sorted(seen.items()):
        casespec = {"seed": r["case"]["seed"], "kind": r["case"]["realkind"], "profile": r["case"]["profile"]}
        m = r["mismatch"]
        d1, a1, b1 = rerun(bdir, casespec, m["perm_a"], m["perm_b"])
        d2, a2, b2 = rerun(bdir, casespec, m["perm_a"], m["perm_b"])
        if not d1 or not d2 or a1.hashes != a2.hashes or b1.hashes != b2.hashes:
            rep.harness_error("order dependence %s did not reproduce identically" % key)
            continue
        if not casespec["profile"].get("nohl"):
            # classify by experiment: with hard link detection switched off, is the image order independent?
            d3, _, _ = rerun(bdir, casespec, m["perm_a"], m["perm_b"], force_nohl=True)
            key += ":only-with-hardlink-detection" if not d3 else ":also-without-hardlink-detection"
        spec = {"property": PROP, "case": casespec, "perm_a": m["perm_a"], "perm_b": m["perm_b"], "argv": r["case"]["argv"],
                "sig_a": m["sig_a"], "sig_b": m["sig_b"]}
        path = rep.write_replay("c11", spec)
        rep.violation(key, "gensquashfs %s: image differs between readdir permutation %s and %s" % (" ".join(r["case"]["argv"]), m["perm_a"], m["perm_b"]), path)
    runs = sum(r["runs"] for r in results)
    cov = {
        "evaluations": runs,
        "distinct_nontrivial": sum(1 for r in results if r["permuted_dirs"] > 0) * NPERM,
        "rule": "one evaluation = one gensquashfs run over a fixed real directory tree under one seeded permutation of every readdir stream "
                "(identity = sorted, reverse, %d random); non-trivial = at least one directory with >= 2 entries was actually permuted" % (NPERM - 2),
        "samples": [dict(r["case"], distinct_images=r["hashes"]) for r in results[:3] if r["case"]],
        "trees": len(results) - len(skipped),
        "directories_permuted": sum(r["permuted_dirs"] for r in results),
        "trees_with_order_dependent_image": sum(1 for r in results if r["mismatch"]),
        "components_real": ["gensquashfs (dir_unix.c, dir_rec.c, dir_hl.c, glob.c, fstree)", "tmpfs with real hard links, devices, xattrs"],
        "components_simulated": ["order of entries returned by readdir (sorted, then seeded permutation per directory)"],
    }
    if cov["directories_permuted"] == 0:
        rep.harness_error("insufficient reach: no directory was permuted")
    return rep.finish(cov, ["permutations are sampled (8 per tree in quick), trees come from the seeded generator"])


if __name__ == "__main__":
    sys.exit(main())
