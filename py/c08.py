"""C08 — deduplication never changes data, even when checksums collide.

tool-sim: xxh32 is replaced at link time (--wrap) by the real checksum masked to 2..8 bits, so many
DIFFERENT blocks / tail ends of equal stored size collide. Which byte-compare path then decides
depends on where the earlier fragment's bytes live when the later one completes (current fragment
block, in-flight copy, already on disk and re-read) - i.e. on -j, -Q and the interleaving, which the
scheduler owns. Oracle: every file byte-exact (independent decoder), true duplicates still share
storage, image == serial-pool image under the same checksum width. Reach probes for every compare
path must be non-zero in the batch, else the check reports insufficient reach (exit 2).
"""
import os, sys, json, re
from common import *
import vfbuild, blockproc, pipelines, treegen, sqfsdec

PROP = "C08"
NEED_PROBES = ["frag_cmp_inflight", "frag_cmp_current", "frag_cmp_reread", "frag_cmp_differ", "frag_cmp_equal",
               "blkwr_range_equal", "blkwr_range_differ"]


def gen_collision_tree(r, bs):
    """many distinct tails / blocks of equal length plus true duplicates of some of them"""
    ents = []
    n = 0

    def add(content):
        nonlocal n
        ents.append(treegen.Entry(b"f%03d" % n, treegen.FILE, content=content, mode=0o644))
        n += 1

    pool = []
    for L in r.sample([1, 7, 100, 333, 1000, bs // 2, bs - 1], 3):
        k = r.choice([6, 12, 25])
        for _ in range(k):
            c = r.randbytes(L) if r.random() < 0.7 else bytes([r.randrange(256)]) * L
            pool.append(c)
    # full blocks: incompressible (stored size == block size for all of them) and compressible ones of equal compressed size
    blocks = [r.randbytes(bs) for _ in range(r.choice([4, 8, 14]))]
    blocks += [bytes([i]) * bs for i in r.sample(range(1, 256), r.choice([3, 6]))]
    files = list(pool)
    for _ in range(r.choice([4, 8, 12])):
        nb = r.choice([1, 1, 2, 3])
        body = b"".join(r.choice(blocks) for _ in range(nb))
        if r.random() < 0.5:
            body += r.choice(pool)
        files.append(body)
    # true duplicates
    for _ in range(r.choice([5, 10, 20])):
        files.append(r.choice(files))
    r.shuffle(files)
    for c in files:
        add(c)
    return ents


def build(bdir, seed, cd):
    r = rng(seed, "c08tree")
    bs = 4096
    ents = gen_collision_tree(r, bs)
    os.makedirs(cd, exist_ok=True)
    treegen.emit_packfile(ents, cd)
    comp = r.choice(["gzip", "lz4", "zstd", "xz"])
    case = pipelines.Case(seed, "gen-collide")
    case.tool = "gensquashfs"
    case.ents = ents
    case.out_image = "out.sqfs"
    case.outputs = {"image": "out.sqfs"}
    opts = ["-c", comp, "-b", str(bs), "-q", "-F", "pack.txt", "-D", "."]
    sortflags = {}
    if r.random() < 0.4:
        lines = []
        for e in r.sample(ents, min(len(ents), 6)):
            fl = r.choice(["dont_deduplicate", "dont_fragment", "dont_compress", "dont_fragment,dont_deduplicate"])
            lines.append("0 [%s] %s" % (fl, e.path.decode()))
            sortflags[e.path] = fl
        with open(os.path.join(cd, "sort.txt"), "w") as f:
            f.write("\n".join(lines) + "\n")
        opts += ["-S", "sort.txt"]
    case.argv = opts + ["out.sqfs"]
    case.desc = {"comp": comp, "files": len(ents), "sortflags": len(sortflags)}
    return case, sortflags


def gen_variant(r):
    j = r.choice([1, 2, 2, 3, 4, 8])
    Q = r.choice([None, 1, 2, 3, 5, 20, 200])
    bits = r.choice([2, 2, 3, 3, 4, 6, 8])
    lines = ["seed %d" % r.randrange(1, 1 << 62), "readdir 0", "hashbits %d" % bits, "record 1"]
    pol = r.choice(["random", "random", "pct", "rr"])
    lines.append("sched pct %d %d" % (r.choice([1, 2, 4]), r.choice([500, 3000])) if pol == "pct" else "sched " + pol)
    if pol == "random":
        lines.append("sticky %d" % r.choice([0, 400, 900]))
    if r.random() < 0.5:
        # stall a worker: fragment blocks stay in flight while later tails complete
        lines.append("stall %d %d %d" % (r.randrange(1, j + 1), r.randrange(0, 300), r.choice([50, 400, 5000])))
    if r.random() < 0.3:
        lines.append("spurious %d" % r.choice([20, 200]))
    return {"j": j, "Q": Q, "bits": bits, "plan": "\n".join(lines) + "\n"}


def vargv(case, v):
    a = case.argv[:-1]
    a += ["-j", str(v["j"])]
    if v["Q"] is not None:
        a += ["-Q", str(v["Q"])]
    return a + [case.argv[-1]]


def judge(case, sortflags, cd):
    """returns list of (clause, detail)"""
    img = sqfsdec.decode(os.path.join(cd, "out.sqfs"))
    if not img.ok():
        return [("image-undecodable", img.errors[0])]
    out = []
    bycontent = {}
    for e in case.ents:
        n = img.tree.get(e.path)
        if n is None:
            out.append(("file-missing", repr(e.path)))
            continue
        if n.content != e.content:
            # find whose data it got instead
            other = [x.path for x in case.ents if x.content == n.content and x.path != e.path]
            out.append(("wrong-data", "%r reads back %d bytes that are not its own%s" % (
                e.path, len(n.content or b""), (" (they are %r's)" % other[0]) if other else "")))
            continue
        if e.content:
            bycontent.setdefault(e.content, ([], []))[1 if e.path in sortflags else 0].append(n)
    for c, (nodes, flagged) in bycontent.items():
        # files packed with default flags must share storage; a copy packed with dont_deduplicate / dont_fragment may add one
        # more stored copy (which later duplicates may legitimately be matched against)
        locs = set((n.blocks_start if n.blocks and any(w & 0xFFFFFF for w in n.blocks) else None, tuple(n.blocks), n.frag) for n in nodes)
        # a flagged file whose TAIL END equals this content stores that tail on its own as well, and the fragment table entry it
        # inserts takes the place of the older one (later default-flag duplicates are matched against it): one more legitimate location
        def parts(x):
            k = (len(x) // 4096) * 4096
            return x[:k], x[k:]
        cb, ct = parts(c)
        tails = 0
        for e in case.ents:
            if e.path in sortflags and e.content and e.content != c:
                eb, et = parts(e.content)
                # the flagged file shares the tail end or the run of full blocks with this content: that part exists twice then
                if (ct and et == ct) or (cb and eb == cb):
                    tails += 1
        if len(locs) > 1 + len(flagged) + tails:
            out.append(("duplicate-not-shared", "%d identical files of %d bytes (default flags) are stored %d times" % (len(nodes), len(c), len(locs))))
            break
    return out


def work(a):
    bdir, caseseed, nvar = a
    res = {"runs": 0, "viol": [], "probes": {}, "err": None, "case": None, "dhashes": set(), "skip": None, "bits": {}}
    try:
        with Scratch("c08") as s:
            cd = os.path.join(s, "case")
            case, sortflags = build(bdir, caseseed, cd)
            res["case"] = dict(case.describe(), **case.desc)
            refs = {}
            for i in range(nvar):
                v = gen_variant(rng(caseseed, "v", i))
                if v["bits"] not in refs:
                    ro = pipelines.run_case(bdir, case, cd, "seed 1\nreaddir 0\nsched rr\npool serial\nhashbits %d\n" % v["bits"], "plain",
                                            argv=vargv(case, dict(v, j=1, Q=None)), timeout=300, cpu=120)
                    if ro.rc != 0:
                        res["skip"] = "serial reference failed: %s" % ro.stderr[-200:]
                        return res
                    refs[v["bits"]] = ro.hashes["image"]
                    for cl, d in judge(case, sortflags, cd):
                        res["viol"].append({"clause": "serial:" + cl, "detail": d, "v": dict(v, plan="seed 1\nreaddir 0\nsched rr\npool serial\nhashbits %d\n" % v["bits"], j=1, Q=None)})
                o = pipelines.run_case(bdir, case, cd, v["plan"], "asan" if i % 6 == 5 else "plain", argv=vargv(case, v), timeout=300, cpu=120)
                res["runs"] += 1
                res["bits"][v["bits"]] = res["bits"].get(v["bits"], 0) + 1
                for k, n in o.trace.probes().items():
                    res["probes"][k] = res["probes"].get(k, 0) + n
                res["dhashes"].add(o.trace.sched().get("dhash"))
                if o.rc != 0:
                    res["viol"].append({"clause": "packer-failed", "detail": o.verdict + " " + o.stderr[-200:].decode(errors="replace"), "v": v})
                    continue
                for cl, d in judge(case, sortflags, cd):
                    res["viol"].append({"clause": cl, "detail": d, "v": v})
                if o.hashes["image"] != refs[v["bits"]]:
                    res["viol"].append({"clause": "differs-from-serial-reference", "detail": "hashbits %d -j %s -Q %s" % (v["bits"], v["j"], v["Q"]), "v": v})
    except Exception as e:
        import traceback
        res["err"] = "%s: %s %s" % (type(e).__name__, e, traceback.format_exc()[-300:])
    res["dhashes"] = len(res["dhashes"])
    return res


def rerun(bdir, caseseed, v):
    with Scratch("c08r") as s:
        cd = os.path.join(s, "case")
        case, sortflags = build(bdir, caseseed, cd)
        o = pipelines.run_case(bdir, case, cd, v["plan"], "plain", argv=vargv(case, v), timeout=300, cpu=120)
        if o.rc != 0:
            return ["packer-failed"], o
        return [c for c, d in judge(case, sortflags, cd)], o


def replay(spec, bdir=None):
    if spec.get('engine') == 'scn-blockproc':
        return blockproc.replay(spec, bdir)
    bdir = bdir or vfbuild.build()
    cl, o = rerun(bdir, spec["case_seed"], spec["v"])
    want = spec["clause"].replace("serial:", "")
    ok = want in cl
    print("replay: clauses=%s expected=%s trace=%s -> %s" % (cl, want, o.trace.hash, "REPRODUCED" if ok else "not reproduced"))
    return 1 if ok else 0


def main():
    t = tier()
    seed = master_seed()
    rep = Report(PROP, "exploration")
    bdir = vfbuild.build()
    ncase, nvar = (32, 24) if t == "quick" else (600, 60)
    items = [(bdir, derive(seed, "c08", i) >> 1, nvar) for i in range(ncase)]
    results = list(pmap_unordered(work, items))
    probes = {}
    for r in results:
        if r["err"]:
            rep.harness_error(r["err"])
        for k, n in r["probes"].items():
            probes[k] = probes.get(k, 0) + n
    skipped = [r for r in results if r["skip"]]
    if len(skipped) * 4 > len(results):
        rep.harness_error("too many inputs whose serial reference fails: %s" % skipped[0]["skip"])
    seen = {}
    for r in results:
        for v in r["viol"]:
            seen.setdefault(v["clause"], (r, v))
    for key, (r, v) in sorted(seen.items()):
        if key == "differs-from-serial-reference":
            spec = {"property": PROP, "case_seed": r["case"]["seed"], "v": v["v"], "clause": key, "detail": v["detail"]}
            rep.violation("gensquashfs:" + key, "image under %s differs from the serial reference with the same checksum width" % v["detail"],
                          rep.write_replay("c08", spec))
            continue
        c1, o1 = rerun(bdir, r["case"]["seed"], v["v"])
        c2, o2 = rerun(bdir, r["case"]["seed"], v["v"])
        want = key.replace("serial:", "")
        if want not in c1 or want not in c2 or o1.trace.hash != o2.trace.hash:
            rep.harness_error("violation %s did not reproduce identically" % key)
            continue
        vv = v["v"]
        # minimise: wider checksum? fewer threads? (greedy over a few knobs)
        def cands(x):
            if x["j"] > 1:
                yield dict(x, j=1)
            if x["Q"] is not None:
                yield dict(x, Q=None)
            ls = x["plan"].splitlines()
            for i, l in enumerate(ls):
                if l.startswith(("stall ", "spurious ", "sticky ")):
                    yield dict(x, plan="\n".join(ls[:i] + ls[i + 1:]) + "\n")
        vv, nr = greedy_shrink(vv, cands, lambda c: want in rerun(bdir, r["case"]["seed"], c)[0], 25)
        spec = {"property": PROP, "case_seed": r["case"]["seed"], "v": vv, "clause": key, "detail": v["detail"], "argv": r["case"]["argv"]}
        rep.violation("gensquashfs:" + key, "%s (hashbits %d, -j %d -Q %s)" % (v["detail"], vv["bits"], vv["j"], vv["Q"]), rep.write_replay("c08", spec))
    runs = sum(r["runs"] for r in results)
    bits = {}
    for r in results:
        for k, n in r["bits"].items():
            bits[str(k)] = bits.get(str(k), 0) + n
    cov = {
        "evaluations": runs,
        "distinct_nontrivial": sum(r["dhashes"] for r in results),
        "rule": "one evaluation = one gensquashfs run over a collision workload with a 2..8 bit checksum under one (-j, -Q, schedule, stall); "
                "distinct = distinct scheduler decision-sequence hashes per input; every run has colliding checksums by construction",
        "samples": [r["case"] for r in results[:3] if r["case"]],
        "inputs": len(results) - len(skipped),
        "probes": probes,
        "faults_fired": {"runs_by_checksum_bits": bits},
        "components_real": ["gensquashfs: block processor, fragment hash table, block writer, file compare, compressors"],
        "components_simulated": ["xxh32 width (link-time wrap)", "thread schedule, stalled workers, spurious wake-ups", "serial pool for the reference"],
    }
    for p in NEED_PROBES:
        if probes.get(p, 0) == 0:
            rep.harness_error("insufficient reach: probe %s never hit" % p)
    # library-level stage: the same components in-process, many more schedules per workload (scn/blockproc.c, py/blockproc.py)
    lib = blockproc.stage(rep, PROP, bdir, seed, t)
    cov["library_level_stage"] = lib
    cov["evaluations"] = cov.get("evaluations", 0) + lib["runs"]
    cov["distinct_nontrivial"] = cov.get("distinct_nontrivial", 0) + lib["runs_with_interleaving"]
    return rep.finish(cov, ["collisions are forced on the checksum only; equal *compressed sizes* come from the workload (equal-length incompressible data)",
                            "schedules sampled; the reach probes say which compare paths the batch actually drove"])


if __name__ == "__main__":
    sys.exit(main())
