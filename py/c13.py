"""C13 — fail-stop: an I/O or allocation failure is reported, never yields a bad image.

tool-sim (sanitized build). Per pipeline: one counting run gives the number of calls per
(call, fd class) and the number of project allocations; then EVERY single fault position is
enumerated (sampled above a cap): k-th open/read/pread/write/pwrite/... fails with ENOSPC/EIO/EMFILE,
EINTR-then-error, early EOF where the tool knows the expected length, k-th project allocation returns
NULL, k-th compressor call fails, k-th pthread_create fails.
Oracle: no crash / sanitizer report / deadlock / hang; exit != 0 => diagnostic and (packers) no output
file; exit 0 => outputs identical to the fault-free run.
"""
import os, sys, re, json, subprocess, errno
from common import *
import vfbuild, blockproc, pipelines

PROP = "C13"
REF_PLAN = "seed 1\nsched rr\nreaddir 0\n"
ENOSPC, EIO, EMFILE, ENOMEM, EAGAIN = 28, 5, 24, 12, 11

QUICK = [  # kind, profile, cases
    ("gen-packfile", {"nfiles": 4, "ndirs": 2, "bs": 4096}, 3),
    ("gen-packfile", {"nfiles": 3, "ndirs": 1, "xattrs": True, "hardlinks": True, "bs": 4096, "jobs": 2}, 2),
    # tables that fill whole 8 KiB metadata blocks (> 1024 inodes with -e): a failing write of a *full* table block, not only of the tail
    ("gen-packfile", {"nfiles": 2, "ndirs": 1, "bigdir": 1100, "bigdir_dense": True, "exportable": True, "notail": False, "bs": 4096, "jobs": 1}, 1),
    # duplicate tail ends far apart: the fragment block with the first copy is on disk by then and is read back (pread on the *output*)
    ("gen-packfile", {"nfiles": 1, "ndirs": 1, "bs": 4096, "duptails": 30, "comp": "gzip", "jobs": 1, "specials": False}, 1),
    ("gen-packdir", {"nfiles": 4, "ndirs": 2, "xattrs": True, "hardlinks": True, "bs": 4096}, 3),
    ("tar2sqfs", {"nfiles": 4, "ndirs": 1, "bs": 4096}, 3),
    ("tar2sqfs", {"nfiles": 3, "ndirs": 1, "wrap": "gzip", "bs": 4096}, 1),
    ("tar2sqfs", {"nfiles": 3, "ndirs": 1, "wrap": "xz", "bs": 4096}, 1),
    ("sqfs2tar", {"nfiles": 4, "ndirs": 1, "hardlinks": True, "xattrs": True}, 2),
    ("sqfs2tar", {"nfiles": 3, "tarcomp": "zstd"}, 1),
    ("rd-cat", {"nfiles": 3, "big": True}, 2),
    ("rd-describe", {"nfiles": 5}, 1),
    ("rd-list", {"nfiles": 5}, 1),
    ("rd-xattr", {"nfiles": 4, "xattrs": True}, 1),
    ("rd-stat", {"nfiles": 4}, 1),
    ("rd-unpack", {"nfiles": 5, "xattrs": True, "hardlinks": True}, 3),
]
PAIR_FRACTION = 0.12              # share of the cleanly failing single faults that get a second fault in their error path
CAP_QUICK, CAP_THOROUGH = 70, 400     # positions per (call, class); above: first 10, last 10, seeded sample
READ_LIKE = ("read", "pread")
WRITE_LIKE = ("write", "pwrite")
PACKERS = ("gensquashfs", "tar2sqfs")


def positions(n, cap, r):
    if n <= cap:
        return list(range(1, n + 1))
    s = set(range(1, 11)) | set(range(n - 9, n + 1))
    while len(s) < cap:
        s.add(r.randrange(1, n + 1))
    return sorted(s)


def fault_list(case, counts, cap, r):
    """[(label, plan lines)]"""
    out = []
    for (call, cls), n in sorted(counts.items()):
        if cls == "*" and call == "alloc":
            for k in positions(n, cap * 3, r):
                out.append(("alloc:%d" % k, ["alloc_fail %d" % k]))
            continue
        if call == "compress":
            for k in positions(n, cap, r):
                out.append(("compress:%d" % k, ["cmpfail %d" % k]))
            continue
        if call in ("xxh32", "readdir_dirs", "clock") or cls in ("stderr",):
            continue
        if call in ("pthread_mutex_init", "pthread_cond_init"):
            for k in positions(n, cap, r):
                out.append(("%s:%d" % (call, k), ["fault %s other %d err %d" % (call, k, ENOMEM)]))
            continue
        if call == "pthread_create":
            for k in positions(n, cap, r):
                out.append(("pthread_create:%d" % k, ["fault pthread_create other %d err %d" % (k, EAGAIN)]))
            continue
        if call == "close":
            continue  # the tools deliberately ignore close() results on descriptors they only read
        for k in positions(n, cap, r):
            if call in READ_LIKE:
                out.append(("%s@%s:%d:EIO" % (call, cls, k), ["fault %s %s %d err %d" % (call, cls, k, EIO)]))
                if r.randrange(4) == 0:
                    out.append(("%s@%s:%d:EINTR+EIO" % (call, cls, k), ["fault %s %s %d eintr" % (call, cls, k),
                                                                      "fault %s %s %d err %d" % (call, cls, k + 1, EIO)]))
                # early EOF only where the tool knows how much must come: tar stream on stdin, image reads
                if (cls == "stdin" and case.tool == "tar2sqfs") or cls == "img":
                    out.append(("%s@%s:%d:EOF" % (call, cls, k), ["fault %s %s %d eof" % (call, cls, k)]))
            elif call in WRITE_LIKE:
                out.append(("%s@%s:%d:ENOSPC" % (call, cls, k), ["fault %s %s %d err %d" % (call, cls, k, ENOSPC)]))
                if r.randrange(3) == 0:
                    out.append(("%s@%s:%d:EIO" % (call, cls, k), ["fault %s %s %d err %d" % (call, cls, k, EIO)]))
                if r.randrange(4) == 0:
                    out.append(("%s@%s:%d:EINTR+ENOSPC" % (call, cls, k), ["fault %s %s %d eintr" % (call, cls, k),
                                                                          "fault %s %s %d err %d" % (call, cls, k + 1, ENOSPC)]))
            elif call in ("open", "openat", "dup", "opendir", "fdopendir"):
                out.append(("%s@%s:%d:EMFILE" % (call, cls, k), ["fault %s %s %d err %d" % (call, cls, k, EMFILE)]))
            elif call == "mmap":
                out.append(("mmap:%d:ENOMEM" % k, ["fault mmap other %d err %d" % (k, ENOMEM)]))
            else:
                e = ENOSPC if call in ("ftruncate", "mkdir", "symlink", "mknod", "lsetxattr", "fsync") else EIO
                out.append(("%s@%s:%d:E%d" % (call, cls, k, e), ["fault %s %s %d err %d" % (call, cls, k, e)]))
    return out


def tar_prefix_ok(path, pos):
    """is `pos` a boundary between two entries of the (uncompressed, well formed) archive at path?"""
    data = open(path, "rb").read()
    off = 0
    pending_ext = False
    while off + 512 <= len(data):
        if off == pos and not pending_ext:
            return True
        hdr = data[off:off + 512]
        if hdr == b"\0" * 512:
            return pos >= off and pos % 512 == 0   # inside the end-of-archive padding
        try:
            szf = hdr[124:136]
            if szf[0] & 0x80:
                size = int.from_bytes(szf[1:], "big")
            else:
                size = int(szf.split(b"\0")[0].strip() or b"0", 8)
        except ValueError:
            return False
        typ = hdr[156:157]
        pending_ext = typ in (b"x", b"g", b"L", b"K", b"X")
        off += 512 + (size + 511) // 512 * 512
    return pos == off and not pending_ext


def classify(case, casedir, ref, o, label, bdir):
    """returns (clause, detail) for a violation or None"""
    fired = any(l.startswith("F ") for l in o.trace.lines)
    if not fired:
        return "not-fired", None
    if o.timeout:
        return "hang", "timeout/cpu limit"
    if o.sig is not None:
        return "crash", "signal %d" % o.sig
    if o.rc == 77:
        m = re.search(rb"(ERROR: AddressSanitizer: [\w-]+|runtime error: [^\n]*|SUMMARY: [^\n]*)", o.stderr)
        return "sanitizer", (m.group(1).decode(errors="replace") if m else "report")[:160]
    if o.rc == 70:
        return "deadlock", "; ".join(o.trace.violations())[:200]
    if o.rc in (71, 72):
        return "sim-monitor", "; ".join(o.trace.violations())[:200]
    if o.rc == 73:
        return "harness", "plan rejected"
    if o.rc != 0:
        if not o.stderr.strip():
            return "nonzero-without-diagnostic", "exit %d, stderr empty" % o.rc
        if case.tool in PACKERS and o.image_exists:
            return "output-left-behind", "exit %d but %s still exists" % (o.rc, case.out_image)
        return None, None
    # exit 0: must equal the fault-free outcome
    if o.key() == ref.key():
        return None, None
    if label.endswith(":EOF") and case.tool == "tar2sqfs":
        m = [l for l in o.trace.lines if l.startswith("E eof")]
        if m:
            pos = int(m[0].split()[5])
            # plain archive: any entry boundary; compressed archive: only the empty prefix (no magic seen yet)
            if (case.stdin == "in.tar" and tar_prefix_ok(os.path.join(casedir, "in.tar"), pos)) or pos == 0:
                # a tar stream cut exactly between two entries is a valid (shorter) archive for this reader:
                # accepted iff the image is exactly the image of that prefix
                pre = os.path.join(casedir, "prefix.tar")
                with open(pre, "wb") as f:
                    f.write(open(os.path.join(casedir, case.stdin), "rb").read()[:pos])
                keep = os.path.join(casedir, "faulted.sqfs")
                os.replace(os.path.join(casedir, case.out_image), keep)
                saved = case.stdin
                case.stdin = "prefix.tar"
                o2 = pipelines.run_case(bdir, case, casedir, REF_PLAN, "plain")
                case.stdin = saved
                same = o2.rc == 0 and sha256_file(os.path.join(casedir, case.out_image)) == sha256_file(keep)
                if same:
                    return "accepted-prefix", None
                return "exit0-truncated-input-wrong-image", "stdin cut at entry boundary %d: image differs from the image of that prefix" % pos
            return "exit0-truncated-input-accepted", "stdin ended after %d bytes (not an entry boundary), exit 0" % pos
    return "exit0-output-differs", "exit 0 but outputs differ from the fault-free run"


HELPERS = {"alloc_flex", "alloc_array", "array_init", "array_init_copy", "array_append", "array_set_capacity",
           "sqfs_dir_entry_create", "sqfs_xattr_create", "strdup", "xattr_create"}
_sym_cache = {}


def symbolize(binary, addr):
    k = (binary, addr)
    if k not in _sym_cache:
        try:
            out = subprocess.run(["addr2line", "-f", "-e", binary, addr], stdout=subprocess.PIPE, timeout=20).stdout.decode().split("\n")
            _sym_cache[k] = out[0].strip() or "?"
        except Exception:
            _sym_cache[k] = "?"
    return _sym_cache[k]


def site_of(o, binary, label):
    """stable call-site key: function containing the failing allocation, else the syscall + fd class"""
    for l in o.trace.lines:
        m = re.match(r"F alloc (\w+) \d+ caller=(0x[0-9a-f]+)(?: caller2=(0x[0-9a-f]+|\(nil\)))?", l)
        if m:
            fn = symbolize(binary, m.group(2))
            if fn in HELPERS and m.group(3) and m.group(3).startswith("0x"):
                fn = fn + "<" + symbolize(binary, m.group(3))
            return "alloc/%s/%s" % (m.group(1), fn)
    parts = label.split(":")
    return parts[0] + ("/" + parts[2] if len(parts) > 2 else "")


def count_work(a):
    bdir, caseseed, kind, prof, cap = a
    try:
        with Scratch("c13c") as s:
            cd = os.path.join(s, "case")
            case = pipelines.build_case(bdir, caseseed, kind, prof, cd)
            ref = pipelines.run_case(bdir, case, cd, REF_PLAN, "asan")
            if ref.rc != 0:
                return {"skip": "reference run: %s %s" % (ref.verdict, ref.stderr[-200:]), "kind": kind}
            fl = fault_list(case, ref.trace.counts(), cap, rng(caseseed, "c13-sample"))
            return {"case": case.describe(), "faults": fl, "counts": {"%s@%s" % k: v for k, v in ref.trace.counts().items()}}
    except Exception as e:
        return {"err": "%s: %s" % (type(e).__name__, e), "kind": kind}


def fault_work(a):
    bdir, casespec, faults = a
    res = {"runs": 0, "fired": 0, "viol": [], "outcomes": {}, "err": None, "accepted_prefix": 0}
    try:
        with Scratch("c13f") as s:
            cd = os.path.join(s, "case")
            case = pipelines.build_case(bdir, casespec["seed"], casespec["kind"], casespec["profile"], cd)
            ref = pipelines.run_case(bdir, case, cd, REF_PLAN, "asan")
            binary = os.path.join(bdir, "asan", "sim-" + case.tool)
            for label, lines in faults:
                plan = REF_PLAN + "\n".join(lines) + "\n"
                o = pipelines.run_case(bdir, case, cd, plan, "asan", timeout=90, cpu=30)
                res["runs"] += 1
                clause, detail = classify(case, cd, ref, o, label, bdir)
                if clause == "not-fired":
                    continue
                res["fired"] += 1
                if clause == "accepted-prefix":
                    res["accepted_prefix"] += 1
                    clause = None
                oc = "exit0-same" if (o.rc == 0 and clause is None) else ("failed-cleanly" if clause is None else clause)
                res["outcomes"][oc] = res["outcomes"].get(oc, 0) + 1
                if clause:
                    res["viol"].append({"label": label, "plan": plan, "clause": clause, "detail": detail,
                                        "site": site_of(o, binary, label), "stderr": o.stderr[-400:].decode(errors="replace"),
                                        "verdict": o.verdict,
                                        "case": {"spec": casespec, "tool": case.tool, "argv": case.argv}})
                    continue
                # second fault inside the error path of the first: the run failed cleanly, so its LAST allocations belong to the
                # error handling / clean-up; let the last d of them fail too (memory stays short once it is short)
                if o.rc != 0 and not label.startswith("alloc") and rng(casespec["seed"], "pair", label).random() < PAIR_FRACTION:
                    total = o.trace.counts().get(("alloc", "*"), 0)
                    for d in (1, 4):
                        if total - d < 1:
                            continue
                        plan2 = plan + "alloc_fail_from %d\n" % (total - d + 1)
                        label2 = "%s+oom-for-the-last-%d-allocations" % (label, d)
                        o2 = pipelines.run_case(bdir, case, cd, plan2, "asan", timeout=90, cpu=30)
                        res["runs"] += 1
                        res["pairs"] = res.get("pairs", 0) + 1
                        c2, d2 = classify(case, cd, ref, o2, label2, bdir)
                        if c2 != "not-fired":
                            res["fired"] += 1
                        if c2 in (None, "not-fired", "accepted-prefix"):
                            continue
                        res["viol"].append({"label": label2, "plan": plan2, "clause": c2, "detail": d2,
                                            "site": "pair:" + site_of(o2, binary, label2), "stderr": o2.stderr[-400:].decode(errors="replace"),
                                            "verdict": o2.verdict, "case": {"spec": casespec, "tool": case.tool, "argv": case.argv}})
    except Exception as e:
        res["err"] = "%s: %s" % (type(e).__name__, e)
    return res


def rerun(bdir, casespec, plan, label):
    with Scratch("c13r") as s:
        cd = os.path.join(s, "case")
        case = pipelines.build_case(bdir, casespec["seed"], casespec["kind"], casespec["profile"], cd)
        ref = pipelines.run_case(bdir, case, cd, REF_PLAN, "asan")
        o = pipelines.run_case(bdir, case, cd, plan, "asan", timeout=90, cpu=30)
        clause, detail = classify(case, cd, ref, o, label, bdir)
        return clause, detail, o


def replay(spec, bdir=None):
    if spec.get('engine') == 'scn-blockproc':
        return blockproc.replay(spec, bdir)
    bdir = bdir or vfbuild.build()
    clause, detail, o = rerun(bdir, spec["case"], spec["plan"], spec["label"])
    ok = clause == spec["clause"]
    print("replay: clause=%s (%s) verdict=%s expected=%s -> %s" % (clause, detail, o.verdict, spec["clause"], "REPRODUCED" if ok else "not reproduced"))
    if o.stderr:
        print(o.stderr[-600:].decode(errors="replace"))
    return 1 if ok else 0


def preexisting_output_check(bdir, seed, rep):
    """a pre-existing output that open() refused to overwrite must survive the failed run"""
    n = 0
    for kind in ("gen-packfile", "tar2sqfs"):
        with Scratch("c13p") as s:
            cd = os.path.join(s, "case")
            case = pipelines.build_case(bdir, derive(seed, "pre", kind) >> 1, kind, {"nfiles": 2, "ndirs": 1}, cd)
            binary = os.path.join(bdir, "asan", "sim-" + case.tool)
            with open(os.path.join(cd, case.out_image), "wb") as f:
                f.write(b"precious")
            r = run_sim(binary, case.argv, plan=REF_PLAN, cwd=cd, stdin=os.path.join(cd, case.stdin) if case.stdin else None)
            n += 1
            cur = None
            try:
                cur = open(os.path.join(cd, case.out_image), "rb").read()
            except OSError:
                pass
            if r.rc == 0 or cur != b"precious":
                spec = {"property": PROP, "special": "preexisting", "kind": kind}
                rep.violation("%s:preexisting-output" % case.tool, "%s without --force: exit %s, pre-existing output %s" % (
                    case.tool, r.rc, "removed or overwritten" if cur != b"precious" else "kept"), rep.write_replay("c13pre", spec))
    return n


def main():
    t = tier()
    seed = master_seed()
    rep = Report(PROP, "fault_enumeration")
    bdir = vfbuild.build()
    cap = CAP_QUICK if t == "quick" else CAP_THOROUGH
    mult = 3 if t == "quick" else 24
    cases = []
    only = os.environ.get("VERIF_ONLY")       # development aid: restrict the run to the profiles whose description contains this text
    for kind, prof, n in QUICK:
        if only and only not in json.dumps(prof, sort_keys=True):
            continue
        for i in range(n * mult):
            cases.append((bdir, derive(seed, "c13", kind, json.dumps(prof, sort_keys=True), i) >> 1, kind, prof, cap))
    counted = pmap(count_work, cases)
    tasks = []
    total_positions = 0
    samples = []
    exhaustive_classes = 0
    sampled_classes = 0
    skipped = [c for c in counted if "skip" in c]
    if len(skipped) * 4 > len(counted):
        rep.harness_error("too many pipelines whose fault-free run fails: %s" % skipped[0]["skip"])
    for c in counted:
        if "skip" in c:
            continue
        if "err" in c:
            rep.harness_error("%s: %s" % (c.get("kind"), c["err"]))
            continue
        casespec = {"seed": c["case"]["seed"], "kind": c["case"]["kind"], "profile": c["case"]["profile"]}
        fl = c["faults"]
        total_positions += len(fl)
        for v in c["counts"].values():
            if v <= cap:
                exhaustive_classes += 1
            else:
                sampled_classes += 1
        if len(samples) < 4:
            samples.append({"case": c["case"], "call_counts": c["counts"], "fault_positions": len(fl), "first_faults": [f[0] for f in fl[:6]]})
        for i in range(0, len(fl), 40):
            tasks.append((bdir, casespec, fl[i:i + 40]))
    # interleave so that long cases do not end up in one worker
    tasks.sort(key=lambda x: derive(seed, repr(x[1]), len(x[2]), x[2][0][0]))
    results = list(pmap_unordered(fault_work, tasks))
    runs = sum(r["runs"] for r in results)
    fired = sum(r["fired"] for r in results)
    outcomes = {}
    for r in results:
        if r["err"]:
            rep.harness_error(r["err"])
        for k, v in r["outcomes"].items():
            outcomes[k] = outcomes.get(k, 0) + v
    n_pre = preexisting_output_check(bdir, seed, rep)
    return finish(rep, bdir, results, tasks, runs, fired, outcomes, samples, total_positions, exhaustive_classes,
                  sampled_classes, n_pre, len(counted))


def finish(rep, bdir, results, tasks, runs, fired, outcomes, samples, total_positions, exh, smp, n_pre, ncases):
    # results came back unordered: re-run association by embedding the case into each violation (done below)
    byk = {}
    for r in results:
        for v in r["viol"]:
            tool = v["case"]["tool"] if "case" in v else "?"
            key = "%s:%s:%s" % (tool, v["site"], v["clause"])
            byk.setdefault(key, v)
    for key, v in sorted(byk.items()):
        if v["clause"] == "harness":
            rep.harness_error("plan rejected for %s" % v["label"])
            continue
        c1, d1, o1 = rerun(bdir, v["case"]["spec"], v["plan"], v["label"])
        c2, d2, o2 = rerun(bdir, v["case"]["spec"], v["plan"], v["label"])
        if c1 != v["clause"] or c2 != v["clause"] or o1.trace.hash != o2.trace.hash:
            rep.harness_error("violation %s did not reproduce identically (%s/%s)" % (key, c1, c2))
            continue
        spec = {"property": PROP, "case": v["case"]["spec"], "plan": v["plan"], "label": v["label"], "clause": v["clause"],
                "detail": v["detail"], "site": v["site"], "tool": v["case"]["tool"], "argv": v["case"]["argv"], "stderr": v["stderr"]}
        path = rep.write_replay("c13", spec)
        rep.violation(key, "%s %s | fault %s -> %s (%s)" % (v["case"]["tool"], " ".join(v["case"]["argv"]), v["label"], v["clause"], v["detail"]), path)
    cov = {
        "evaluations": runs + ncases + n_pre,
        "distinct_nontrivial": fired,
        "rule": "one evaluation = one tool run with exactly one injected failure (or EINTR followed by a failure; for a sample of the cleanly "
                "failing ones additionally: the last 1 / last 4 allocations of that failing run fail as well); every run is a "
                "distinct (pipeline, call, fd class, ordinal, kind); non-trivial = the fault actually fired (trace F line)",
        "samples": samples,
        "exhaustive": smp == 0,
        "fault_positions_enumerated": total_positions,
        "call_classes_fully_enumerated": exh,
        "call_classes_sampled_above_cap": smp,
        "outcomes": outcomes,
        "pipelines": ncases,
        "preexisting_output_runs": n_pre,
        "runs_with_a_second_fault_in_the_error_path": sum(r.get("pairs", 0) for r in results),
        "sanitizer": "AddressSanitizer + UBSan(bounds,object-size,null,pointer-overflow,vla-bound,return,unreachable)",
        "components_real": ["gensquashfs, tar2sqfs, sqfs2tar, rdsquashfs from the working tree", "codec libraries", "tmpfs"],
        "components_simulated": ["outcome of every intercepted libc call", "project allocator (k-th allocation fails)",
                                 "compressor proxy (k-th block fails)", "thread schedule (round robin)"],
    }
    if fired < runs * 0.8:
        rep.harness_error("insufficient reach: only %d of %d planned faults fired" % (fired, runs))
    # library-level stage: the same components in-process, many more schedules per workload (scn/blockproc.c, py/blockproc.py)
    lib = blockproc.stage(rep, PROP, bdir, master_seed(), tier())
    cov["library_level_stage"] = lib
    cov["evaluations"] = cov.get("evaluations", 0) + lib["runs"]
    cov["distinct_nontrivial"] = cov.get("distinct_nontrivial", 0) + lib["runs_with_interleaving"]
    return rep.finish(cov, ["single-fault model (one failing call, or EINTR then failure); allocation faults are transient (only the k-th fails)",
                            "early EOF is only injected where the tool knows the expected length (tar stream, image reads)",
                            "close() failures are not injected (results deliberately ignored on read-only descriptors)"])


if __name__ == "__main__":
    sys.exit(main())
