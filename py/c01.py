"""C01 — packing fidelity: every image reads back exactly as the tree that was packed.
C03 shares this exploration (see c03.py): the same runs feed the on-disk validator.

tool-sim: gensquashfs packs a generated tree (pack file / pack dir) under a seeded configuration
(compressor, block size, -e -T -d --set-uid/gid --all-root -k -x, SOURCE_DATE_EPOCH, -j/-Q, store
proxy) with the scheduler active; in the benign-fault configuration also short I/O, EINTR and a
readdir permutation (faults that must not change the outcome). Oracle: the independent decoder's
tree == the model's expected tree (paths, types, modes, ids, mtimes, targets, device numbers,
hard-link groups, xattrs, byte-identical contents); rdsquashfs -u (unpack as root), -c and -d agree.
Fault-free and benign-fault runs are counted separately.
"""
import os, sys, json, re, hashlib, stat, subprocess
from common import *
import vfbuild, pipelines, treegen, sqfsdec

PROP = "C01"

PROFILES = [
    ({"nfiles": 8, "ndirs": 3}, 10),
    ({"nfiles": 6, "ndirs": 2, "hostile": True}, 8),
    ({"nfiles": 6, "ndirs": 3, "xattrs": True, "hardlinks": True}, 10),
    ({"nfiles": 10, "ndirs": 2, "big": True}, 6),
    ({"nfiles": 2, "ndirs": 1, "bigdir": 300}, 2),
    ({"nfiles": 1, "ndirs": 0, "bigdir": 700, "bigdir_dense": True, "specials": False}, 1),
    ({"nfiles": 0, "ndirs": 0, "specials": False}, 1),
    ({"nfiles": 2, "ndirs": 1, "specials": False, "zeros": 6}, 2),
]
SIMPLE_NAME = re.compile(rb"^[A-Za-z0-9_\-.,+=/]*$")


def gen_config(r, kind, ents):
    comp = r.choice(["gzip", "gzip", "xz", "lz4", "zstd", "lzma"])
    bs = r.choice([4096, 4096, 8192, 32768, 131072, 1048576])
    opts = ["-c", comp, "-b", str(bs), "-q"]
    cfg = {"comp": comp, "bs": bs, "env": {}, "store": r.random() < 0.15}
    if r.random() < 0.3:
        x = {"gzip": ["level=1", "level=9", "window=9"], "xz": ["level=0", "dictsize=8192", "x86", "dictsize=1M", "dictsize=256K", "dictsize=196608", "dictsize=1M,x86"], "lz4": ["hc"],
             "zstd": ["level=1", "level=19"], "lzma": ["level=1"]}[comp]
        opts += ["-X", r.choice(x)]
    j = r.choice([1, 1, 2, 3, 4, 8])
    opts += ["-j", str(j)]
    if r.random() < 0.5:
        opts += ["-Q", str(r.choice([1, 2, 3, 10, 100]))]
    if r.random() < 0.4:
        opts.append("-e")
        cfg["exportable"] = True
    if r.random() < 0.3:
        opts.append("-T")
        cfg["notail"] = True
    if r.random() < 0.25:
        opts += ["-B", str(r.choice([1024, 4096, 65536, 1536, 3000, 5000, 4160]))]      # any value >= 1024 is accepted, not only powers of two
    cfg["devblk"] = int(opts[opts.index("-B") + 1]) if "-B" in opts else 4096
    cfg["def_mtime"] = 0
    if r.random() < 0.4:
        cfg["def_mtime"] = r.choice([1, 1500000000, 0xFFFFFFFF])
        cfg["env"]["SOURCE_DATE_EPOCH"] = str(cfg["def_mtime"])
    cfg["force_uid"] = cfg["force_gid"] = None
    c = r.random() if kind != "packglob" else 1.0
    if c < 0.15:
        opts.append("--all-root")
        cfg["force_uid"] = cfg["force_gid"] = 0
    elif c < 0.3:
        cfg["force_uid"] = r.choice([0, 5, 100000])
        opts += ["-u", str(cfg["force_uid"])]
        if r.random() < 0.5:
            cfg["force_gid"] = r.choice([0, 6])
            opts += ["-g", str(cfg["force_gid"])]
    cfg["defaults"] = None
    if kind == "packfile":
        if r.random() < 0.4:
            d = {"uid": r.choice([0, 7, 1000]), "gid": r.choice([0, 9]), "mode": r.choice([0o755, 0o700]), "mtime": r.choice([0, 5, 1400000000])}
            cfg["defaults"] = d
            opts += ["-d", "uid=%d,gid=%d,mode=0%o,mtime=%d" % (d["uid"], d["gid"], d["mode"], d["mtime"])]
        opts += ["-F", "pack.txt", "-D", "."]
        cfg["with_x"] = any(e.xattrs for e in ents)
        if cfg["with_x"]:
            opts += ["-A", "xattr.txt"]
    elif kind == "packglob":
        # the materialised tree enters through glob lines of a pack file: one line per entry type (directories first), mode / uid / gid
        # either '*' (keep the source's) or a number that replaces all twelve permission bits / the id of every entry the line adds
        opts += ["-F", "pack.txt", "-D", "."]
        cfg["with_x"] = False
        cfg["keep_time"] = r.random() < 0.6
        cfg["nohl"] = r.random() < 0.2
        cfg["glob_mode"] = r.choice([None, None, 0o750, 0o4755, 0o1777, 0o2711, 0o644, 0o7777, 0])
        cfg["glob_uid"] = r.choice([None, None, 0, 1234, 70000])
        cfg["glob_gid"] = r.choice([None, None, 0, 4321])
        tail = (b" -keeptime" if cfg["keep_time"] else b"") + (b" -nohardlinks" if cfg["nohl"] else b"") + b" -- ./tree"
        ids = b" %s %s" % (b"*" if cfg["glob_uid"] is None else b"%d" % cfg["glob_uid"], b"*" if cfg["glob_gid"] is None else b"%d" % cfg["glob_gid"])
        m = b"*" if cfg["glob_mode"] is None else b"0%o" % cfg["glob_mode"]
        cfg["packtext"] = b"".join(b"glob / %s%s -type %s%s\n" % (b"0777" if t == b"l" else m, ids, t, tail) for t in (b"d", b"f", b"l", b"p", b"s", b"c", b"b"))
    else:
        opts += ["-D", "tree"]
        cfg["keep_time"] = r.random() < 0.7
        if cfg["keep_time"]:
            opts.append("-k")
        cfg["with_x"] = r.random() < 0.7
        if cfg["with_x"]:
            opts.append("-x")
        cfg["nohl"] = r.random() < 0.2
        if cfg["nohl"]:
            opts.append("-H")
    # sort file: packing order and per-file block flags; never the logical tree
    cfg["sorttext"] = None
    files = [e for e in ents if e.type == treegen.FILE and e.content is not None]
    zeros = [e for e in files if e.content and not e.content.strip(b"\0")]
    if files and (r.random() < 0.3 or (len(zeros) >= 3 and r.random() < 0.8)):
        lines = []
        for e in files:
            if e in zeros and len(zeros) >= 3:
                lines.append(b"-100 [nosparse] " + treegen.sort_name(e.path))      # zero files first and next to each other: all-zero fragment blocks
                continue
            if r.random() < 0.4:
                continue
            fl = [x for x in (b"dont_compress", b"dont_fragment", b"dont_deduplicate", b"nosparse") if r.random() < 0.25]
            lines.append(b"%d %s%s" % (r.randrange(-3, 4), (b"[" + b",".join(fl) + b"] ") if fl else b"", treegen.sort_name(e.path)))
        cfg["sorttext"] = b"\n".join(lines) + b"\n"
        opts += ["-S", "sort.txt"]
    cfg["argv"] = opts + ["out.sqfs"]
    return cfg


def gen_plan(r, cfg, benign):
    lines = ["seed %d" % r.randrange(1, 1 << 62), "sched " + r.choice(["random", "rr", "pct 3 500"])]
    if cfg["store"]:
        lines.append("store 1")
    if benign:
        lines.append("readdir %d" % r.choice([0, 1, r.randrange(2, 1 << 30)]))
        for call in ("read", "pread", "pwrite"):
            if r.random() < 0.6:
                lines.append("rate %s * short %d" % (call, r.choice([50, 300])))
            if r.random() < 0.3:
                lines.append("rate %s * eintr %d" % (call, r.choice([30, 150])))
        lines.append("junk %d" % r.choice([0x5A, 0xFF]))
    else:
        lines.append("readdir 0")
    return "\n".join(lines) + "\n"


def expected_for(kind, ents, cfg):
    if kind == "packfile":
        dm = cfg["def_mtime"]
        d = dict(cfg["defaults"]) if cfg["defaults"] else None
        if d is not None and "SOURCE_DATE_EPOCH" in cfg["env"]:
            pass
        exp, groups = treegen.expected_packfile(ents, def_mtime=dm, defaults=d, force_uid=cfg["force_uid"], force_gid=cfg["force_gid"],
                                                with_xattrs=cfg["with_x"])
        return exp, groups
    if kind == "packglob":
        exp, groups = treegen.expected_packdir(ents, keep_time=cfg["keep_time"], def_mtime=cfg["def_mtime"], with_xattrs=False, hardlinks=not cfg["nohl"])
        for p, (t, mode, uid, gid, mt, extra, xa) in list(exp.items()):
            if p == b"":
                continue
            if cfg["glob_mode"] is not None and t != treegen.SLINK:
                mode = cfg["glob_mode"] & 0o7777
            exp[p] = (t, mode, uid if cfg["glob_uid"] is None else cfg["glob_uid"], gid if cfg["glob_gid"] is None else cfg["glob_gid"], mt, extra, xa)
        return exp, groups
    exp, groups = treegen.expected_packdir(ents, keep_time=cfg["keep_time"], def_mtime=cfg["def_mtime"], with_xattrs=cfg["with_x"],
                                           force_uid=cfg["force_uid"], force_gid=cfg["force_gid"], hardlinks=not cfg["nohl"])
    return exp, groups


def reader_agreement(bdir, cd, img, summary):
    """rdsquashfs must read back what the independent decoder sees. returns list of differences"""
    diffs = []
    unp = os.path.join(cd, "unp")
    import shutil
    shutil.rmtree(unp, ignore_errors=True)
    os.makedirs(unp)
    r = run_sim(os.path.join(bdir, "asan", "sim-rdsquashfs"), ["-q", "-C", "-O", "-T", "-X", "-u", "/", "-p", "unp", "out.sqfs"], cwd=cd,
                timeout=120, cpu=60)
    if r.rc != 0:
        # the host may refuse some xattrs (user.* on special files); retry without -X before judging
        shutil.rmtree(unp, ignore_errors=True)
        os.makedirs(unp)
        r2 = run_sim(os.path.join(bdir, "asan", "sim-rdsquashfs"), ["-q", "-C", "-O", "-T", "-u", "/", "-p", "unp", "out.sqfs"], cwd=cd,
                     timeout=120, cpu=60)
        if r2.rc != 0:
            return ["rdsquashfs -u failed (%s): %s" % (r2.verdict(), r2.stderr[-200:].decode(errors="replace"))], 0
        with_x = False
    else:
        with_x = True
    snap = pipelines.snapshot_dir(unp, True)
    n = 0
    for path, v in summary.items():
        if path == b"":
            continue
        t, mode, uid, gid, mtime, extra, xa, ino, nlink = v
        s = snap.get(path)
        if s is None:
            diffs.append("unpack: %r missing" % path)
            continue
        n += 1
        kind, smode, suid, sgid, ssize, sextra, smt, sxa, snl = s
        tmap = {"dir": stat.S_IFDIR, "file": stat.S_IFREG, "slink": stat.S_IFLNK, "chr": stat.S_IFCHR, "blk": stat.S_IFBLK,
                "fifo": stat.S_IFIFO, "sock": stat.S_IFSOCK}
        if kind != tmap[t]:
            diffs.append("unpack: %r type" % path)
            continue
        if t != "slink" and smode != mode:
            diffs.append("unpack: %r mode %o != %o" % (path, smode, mode))
        if (suid, sgid) != (uid, gid):
            diffs.append("unpack: %r owner %d:%d != %d:%d" % (path, suid, sgid, uid, gid))
        if t == "file" and sextra != hashlib.sha256(extra).hexdigest():
            diffs.append("unpack: %r content differs" % path)
        if t == "slink" and sextra != extra:
            diffs.append("unpack: %r target %r != %r" % (path, sextra, extra))
        if t in ("chr", "blk"):
            want = os.makedev(extra >> 8 & 0xFFF, (extra & 0xFF) | ((extra >> 12) & 0xFFF00))
            if sextra != want:
                diffs.append("unpack: %r rdev %#x != %#x" % (path, sextra, want))
        if t != "dir" and smt != -1 and smt != mtime and t != "slink":
            diffs.append("unpack: %r mtime %d != %d" % (path, smt, mtime))
        # the host decides what happens to security.* (an LSM may hide or rewrite it): compare user.* / trusted.* only
        keep = lambda kv: {k: v for k, v in kv if k.startswith((b"user.", b"trusted."))}
        if with_x and t in ("file", "dir") and keep(sxa) != keep(xa):
            diffs.append("unpack: %r xattrs %r != %r" % (path, sxa, xa))
    # unpack of a sub directory: its content must appear directly under the unpack root
    subdirs = [p for p, v in summary.items() if v[0] == "dir" and p and b"\n" not in p and any(q.startswith(p + b"/") for q in summary)]
    if subdirs:
        sd = subdirs[0]
        unp2 = os.path.join(cd, "unp2")
        shutil.rmtree(unp2, ignore_errors=True)
        os.makedirs(unp2)
        rr = run_sim(os.path.join(bdir, "asan", "sim-rdsquashfs"), ["-q", "-u", "/" + os.fsdecode(sd), "-p", "unp2", "out.sqfs"], cwd=cd, timeout=120, cpu=60)
        if rr.rc != 0:
            diffs.append("unpack of sub directory %r failed: %s" % (sd, rr.stderr[-150:].decode(errors="replace")))
        else:
            snap2 = pipelines.snapshot_dir(unp2, False)
            for path, v in summary.items():
                if path.startswith(sd + b"/"):
                    rel = path[len(sd) + 1:]
                    if rel not in snap2:
                        diffs.append("unpack of sub directory %r: %r missing" % (sd, rel))
                        break
                    if v[0] == "file" and snap2[rel][5] != hashlib.sha256(v[5]).hexdigest():
                        diffs.append("unpack of sub directory %r: %r content differs" % (sd, rel))
                        break
                    n += 1
        shutil.rmtree(unp2, ignore_errors=True)
    # cat of up to 4 files
    files = [p for p, v in summary.items() if v[0] == "file" and p and b"\n" not in p][:4]
    for p in files:
        rr = run_sim(os.path.join(bdir, "asan", "sim-rdsquashfs"), ["-c", os.fsdecode(p), "out.sqfs"], cwd=cd, timeout=60, cpu=30)
        if rr.rc != 0 or rr.stdout != summary[p][5]:
            diffs.append("cat: %r differs (rc %s)" % (p, rr.rc))
        n += 1
    # describe for simple names
    if all(SIMPLE_NAME.match(p) for p in summary) and all(v[0] != "slink" or SIMPLE_NAME.match(v[5]) for v in summary.values()):
        rr = run_sim(os.path.join(bdir, "asan", "sim-rdsquashfs"), ["-d", "out.sqfs"], cwd=cd, timeout=60, cpu=30)
        if rr.rc != 0:
            diffs.append("describe failed: %s" % rr.verdict())
        else:
            got = {}
            for line in rr.stdout.split(b"\n"):
                f = line.split()
                if len(f) >= 5:
                    got[f[1].lstrip(b"/")] = (f[0], int(f[2], 8), int(f[3]), int(f[4]), f[5:])
            kw = {"dir": b"dir", "file": b"file", "slink": b"slink", "chr": b"nod", "blk": b"nod", "fifo": b"pipe", "sock": b"sock"}
            seen_inos = set()
            for path, v in summary.items():
                if path == b"":
                    continue
                g = got.get(path)
                first = v[7] not in seen_inos
                seen_inos.add(v[7])
                if g is None:
                    diffs.append("describe: %r missing" % path)
                elif g[0] == b"link":
                    if first:
                        diffs.append("describe: first occurrence of inode %d printed as link" % v[7])
                elif (g[0], g[1], g[2], g[3]) != (kw[v[0]], v[1], v[2], v[3]):
                    diffs.append("describe: %r %r != %r" % (path, g[:4], (kw[v[0]], v[1], v[2], v[3])))
            n += len(got)
    return diffs, n


def work(a):
    bdir, caseseed, kind, prof, nconf = a
    res = {"runs": 0, "ok": 0, "refused": 0, "viol": [], "err": None, "case": None, "benign_runs": 0, "reader_checks": 0,
           "invalid": [], "layouts": set(), "images": 0}
    try:
        with Scratch("c01") as s:
            cd = os.path.join(s, "case")
            os.makedirs(cd)
            r = rng(caseseed, "tree", kind)
            ents = treegen.gen_tree(r, bs=4096, nfiles=prof.get("nfiles", 6), ndirs=prof.get("ndirs", 2), hostile=prof.get("hostile", False),
                                    specials=prof.get("specials", True), xattrs=("safe" if kind in ("packdir", "packglob") and prof.get("xattrs") else prof.get("xattrs", False)),
                                    hardlinks=prof.get("hardlinks", False), big=prof.get("big", False), bigdir=prof.get("bigdir", 0),
                                    bigdir_dense=prof.get("bigdir_dense", False))
            zsizes = [3000, 2000, 500, 3500, 1, 4095, 5000, 4096, 2500]
            r.shuffle(zsizes)
            for k in range(prof.get("zeros", 0)):
                ents.append(treegen.Entry(b"zero%02d" % k, treegen.FILE, content=b"\0" * zsizes[k % len(zsizes)], mode=0o644,
                                          uid=r.choice([0, 1000]), gid=0, mtime=r.choice([0, 1234567890])))
            if kind == "packfile":
                ents = [e for e in ents if treegen.packfile_representable(e)]
                treegen.emit_packfile(ents, cd)
                treegen.emit_xattr_file(ents, cd)
            else:
                treegen.host_materialisable(ents)
                try:
                    treegen.emit_dir(ents, os.path.join(cd, "tree"))
                except OSError as e:
                    res["case"] = {"seed": caseseed, "kind": kind, "profile": prof, "entries": len(ents), "skipped": str(e)[:80]}
                    res["layouts"] = []
                    return res   # the host file system cannot hold this tree (e.g. name too long): not a packer matter
            res["case"] = {"seed": caseseed, "kind": kind, "profile": prof, "entries": len(ents)}
            case = pipelines.Case(caseseed, "gen-" + kind, prof)
            case.tool = "gensquashfs"
            case.out_image = "out.sqfs"
            case.outputs = {"image": "out.sqfs"}
            for i in range(nconf):
                rc = rng(caseseed, "conf", i)
                cfg = gen_config(rc, kind, ents)
                benign = i % 2 == 1
                plan = gen_plan(rc, cfg, benign)
                case.argv = cfg["argv"]
                if cfg.get("packtext") is not None:
                    with open(os.path.join(cd, "pack.txt"), "wb") as f:
                        f.write(cfg["packtext"])
                if cfg["sorttext"] is not None:
                    with open(os.path.join(cd, "sort.txt"), "wb") as f:
                        f.write(cfg["sorttext"])
                o = pipelines.run_case(bdir, case, cd, plan, "asan" if i % 3 == 0 else "plain", extra_env=cfg["env"], timeout=180, cpu=60)
                res["runs"] += 1
                res["benign_runs"] += benign
                spec = {"cfg": {k: v for k, v in cfg.items()}, "plan": plan, "i": i, "benign": benign}
                if o.rc != 0:
                    if o.verdict != "exit:1" or not o.stderr.strip():
                        res["viol"].append(dict(spec, clause="packer-" + ("crash" if o.verdict != "exit:1" else "silent"), detail=o.verdict + " " + o.stderr[-200:].decode(errors="replace")))
                    else:
                        res["viol"].append(dict(spec, clause="refused-representable-input", detail=o.stderr[-200:].decode(errors="replace")))
                    continue
                img = sqfsdec.decode(os.path.join(cd, "out.sqfs"))
                res["images"] += 1
                if not img.ok():
                    res["viol"].append(dict(spec, clause="image-undecodable", detail=img.errors[0]))
                    res["invalid"].append(dict(spec, clause="undecodable:" + re.sub(r"\d+", "N", img.errors[0])[:60], detail=img.errors[0]))   # C03 reads these
                    continue
                sqfsdec.check_padding(img, cfg["devblk"])
                for inv in img.invalid:
                    res["invalid"].append(dict(spec, clause=re.sub(r"\d+", "N", inv)[:80], detail=inv))
                res["layouts"].add((cfg["comp"], bool(img.frags), bool(img.xattr_sets), img.export is not None,
                                    any(n.ext and n.type == 1 for n in img.inodes_by_ref.values()), cfg["store"]))
                summ = sqfsdec.tree_summary(img)
                exp, groups = expected_for(kind, ents, cfg)
                diffs = treegen.compare_tree(exp, groups, summ)
                if kind in ("packdir", "packglob"):
                    diffs = [d for d in diffs if not d.startswith("b'': ")]  # root attributes come from the pack dir itself
                if diffs:
                    res["viol"].append(dict(spec, clause="tree-differs:" + re.sub(r"b'.*?'|\d+", "_", diffs[0])[:60], detail="; ".join(diffs[:4])))
                    continue
                res["ok"] += 1
                if i < 3:
                    rd, n = reader_agreement(bdir, cd, img, summ)
                    res["reader_checks"] += n
                    if rd:
                        res["viol"].append(dict(spec, clause="reader-disagrees:" + re.sub(r"b'.*?'|\d+", "_", rd[0])[:50], detail="; ".join(rd[:4])))
    except Exception as e:
        import traceback
        res["err"] = "%s: %s %s" % (type(e).__name__, e, traceback.format_exc()[-400:])
    res["layouts"] = sorted(map(repr, res["layouts"]))
    return res


def unrepresentable_checks(bdir, seed):
    """boundary inputs named by the property: over-long names and > 65536 distinct ids must be refused (never stored altered);
    multiples of 512 distinct xattr sets, exactly 65536 ids and a > 4 GiB sparse file (thorough) must round-trip"""
    out = []
    n = 0
    gens = os.path.join(bdir, "asan", "sim-gensquashfs")
    plain = os.path.join(bdir, "plain", "sim-gensquashfs")
    with Scratch("c01u") as s:
        open(os.path.join(s, "in"), "wb").write(b"x")

        def pack(body, extra=(), binary=gens, env=None):
            open(os.path.join(s, "pack.txt"), "wb").write(body)
            if os.path.exists(os.path.join(s, "o.sqfs")):
                os.unlink(os.path.join(s, "o.sqfs"))
            return run_sim(binary, ["-F", "pack.txt", "-D", ".", "-q", "-c", "gzip"] + list(extra) + ["o.sqfs"], cwd=s, plan="seed 1\nsched rr\n", timeout=600, cpu=300, env=env)

        r = pack(b"file /%s 0644 0 0 in\n" % (b"n" * 65537)); n += 1
        if r.rc == 0:
            out.append(("name-65537-bytes", "accepted an unrepresentable input with exit 0"))
        r = pack(b"file /%s 0644 0 0 in\n" % (b"n" * 256)); n += 1
        img = sqfsdec.decode(os.path.join(s, "o.sqfs")) if r.rc == 0 else None
        if r.rc != 0 or not img.ok() or (b"n" * 256) not in img.tree:
            out.append(("name-256-bytes-ok", "a 256 byte name was refused or stored altered"))
        # directory listings around the 64 KiB limit of the basic directory inode (16 bit size field storing listing + 3), reached with
        # FEWER than 256 entries: 250 entries with names of ~254 bytes; listing = 12 per header + 8 + len(name) per entry
        # (the writer starts a new 12 byte header at every metadata block boundary of the listing, so the size is measured once on a
        #  listing safely above the limit - stored in an extended inode - and the names are then shortened by exact arithmetic)
        def dirpack(lens):
            names = [(b"%03d" % i) + b"n" * (L - 3) for i, L in enumerate(lens)]
            r = pack(b"dir /d 0755 0 0\n" + b"".join(b"pipe /d/%s 0644 0 0\n" % nm for nm in names), binary=plain)
            img = sqfsdec.decode(os.path.join(s, "o.sqfs")) if r.rc == 0 else None
            return names, r, img
        lens0 = [254] * 249 + [200]              # only the LAST name is tuned: everything in front of it keeps its layout
        names, r, img = dirpack(lens0); n += 1
        have0 = img.tree[b"d"].dir_size - 3 if (img is not None and img.ok() and b"d" in img.tree) else None
        if have0 is None or not (65537 - 50 < have0 < 65531 + 190):
            out.append(("dir-listing-probe", "could not build the probe directory (%s)" % (r.stderr[-100:] if r.rc else have0)))
        else:
            # calibrate once more well below the limit: there the inode is a basic one, as it still is (or wrongly stays) up to the limit
            last1 = 200 + 65500 - have0
            names, r, img = dirpack(lens0[:-1] + [last1]); n += 1
            a1 = img.tree[b"d"].dir_size - 3 if (img is not None and img.ok() and b"d" in img.tree) else None
            if a1 is None or not (65400 < a1 < 65530):
                out.append(("dir-listing-probe", "calibration run gave a listing of %s bytes" % a1))
            else:
                for want in (65531, 65532, 65533, 65534, 65535, 65536, 65537, 65540):
                    names, r, img = dirpack(lens0[:-1] + [last1 + want - a1]); n += 1
                    got = sorted(p2[2:] for p2 in img.tree if p2.startswith(b"d/")) if img is not None and img.ok() else None
                    if r.rc != 0 or got != sorted(names) or img.invalid:
                        out.append(("dir-listing-near-64k", "a directory of 250 entries whose listing would be %d bytes in a basic inode %s" % (
                            want, "was refused" if r.rc != 0 else ("reads back with %s entries%s" % (len(got) if got is not None else "?", (": " + (img.invalid or img.errors)[0]) if img is not None and (img.invalid or img.errors) else "")))))
                        break
        # one more distinct id than the 16 bit id count of the super block can express (65535): uid 0 of the root plus 65535 others
        r = pack(b"".join(b"pipe /p%d 0644 %d 0\n" % (i, i + 1) for i in range(65535)), binary=plain); n += 1
        if r.rc == 0:
            img = sqfsdec.decode(os.path.join(s, "o.sqfs"))
            if not img.ok() or img.invalid or len(img.ids) != 65536:
                out.append(("ids-65536", "65536 distinct ids accepted with exit 0, image: %s" % ((img.errors or img.invalid or ["%d ids" % len(img.ids)])[0])))
        elif not r.stderr.strip():
            out.append(("ids-65536-silent", "refused without diagnostic"))
        # distinct xattr sets across the 512-descriptor block boundary (1100 sets, some sharing a long value)
        body = b"".join(b"file /f%04d 0644 0 0 in\n" % i for i in range(1100))
        xa = b"".join(b"# file: f%04d\nuser.n=0x%08x\nuser.shared=0x%s\n\n" % (i, i, b"ab" * 200) for i in range(1100))
        open(os.path.join(s, "xattr.txt"), "wb").write(xa)
        r = pack(body, ["-A", "xattr.txt"], binary=plain); n += 1
        if r.rc != 0:
            out.append(("xattr-1100-sets", "refused: %s" % r.stderr[-100:]))
        else:
            img = sqfsdec.decode(os.path.join(s, "o.sqfs"))
            bad = not img.ok() or img.invalid
            if not bad:
                for i in (0, 511, 512, 513, 1023, 1024, 1099):
                    nd = img.tree.get(b"f%04d" % i)
                    if nd is None or nd.xattrs != {b"user.n": i.to_bytes(4, "big"), b"user.shared": b"\xab" * 200}:
                        bad = True
            if bad:
                out.append(("xattr-1100-sets", "xattrs do not read back: %s" % ((img.errors or img.invalid or ["value mismatch"])[0])))
        if tier() == "thorough":
            r = pack(b"".join(b"pipe /p%d 0644 %d 0\n" % (i, i + 1) for i in range(65534)), binary=plain); n += 1
            img = sqfsdec.decode(os.path.join(s, "o.sqfs")) if r.rc == 0 else None
            if r.rc != 0 or not img.ok() or img.invalid or img.tree[b"p65533"].uid != 65534 or len(img.ids) != 65535:
                out.append(("ids-65535-ok", "65535 distinct ids (the most the id count can express) refused or stored altered"))
            # > 4 GiB file made of holes with data at both ends
            os.makedirs(os.path.join(s, "tree"))
            size = (4 << 30) + 12345
            with open(os.path.join(s, "tree", "big"), "wb") as f:
                f.write(b"head")
                f.seek(size - 4)
                f.write(b"tail")
            if os.path.exists(os.path.join(s, "o.sqfs")):
                os.unlink(os.path.join(s, "o.sqfs"))
            r = run_sim(plain, ["-D", "tree", "-q", "-c", "gzip", "-b", "1048576", "o.sqfs"], cwd=s, plan="seed 1\nsched rr\n", timeout=1200, cpu=900); n += 1
            if r.rc != 0:
                out.append(("sparse-4GiB", "refused: %s" % r.stderr[-100:]))
            else:
                img = sqfsdec.decode(os.path.join(s, "o.sqfs"), want_content=False)
                nd = img.tree.get(b"big") if img.ok() else None
                if nd is None or nd.size != size or img.invalid:
                    out.append(("sparse-4GiB", "size reads back as %s: %s" % (getattr(nd, "size", None), (img.errors or img.invalid or [""])[0])))
                else:
                    import hashlib
                    rr = subprocess.run([os.path.join(bdir, "plain", "sim-rdsquashfs"), "-c", "big", "o.sqfs"], cwd=s, stdout=subprocess.PIPE)
                    h = hashlib.sha256()
                    h.update(b"head"); rem = size - 8
                    z = b"\0" * (1 << 20)
                    while rem > 0:
                        k = min(rem, len(z)); h.update(z[:k]); rem -= k
                    h.update(b"tail")
                    if hashlib.sha256(rr.stdout).hexdigest() != h.hexdigest():
                        out.append(("sparse-4GiB", "rdsquashfs -c returns different bytes (%d)" % len(rr.stdout)))
    return out, n


def rerun(bdir, casespec, v):
    """fresh scratch: returns the clause seen for this configuration"""
    a = (bdir, casespec["seed"], casespec["kind"], casespec["profile"], v["i"] + 1)
    res = work(a)
    for x in res["viol"] + res["invalid"]:
        if x["i"] == v["i"]:
            return x["clause"], x["detail"]
    return None, res.get("err")


def replay(spec, bdir=None):
    bdir = bdir or vfbuild.build()
    clause, detail = rerun(bdir, spec["case"], spec["v"])
    cands = [x["clause"] for x in [spec["v"]]]
    res = work((bdir, spec["case"]["seed"], spec["case"]["kind"], spec["case"]["profile"], spec["v"]["i"] + 1))
    found = [x for x in res["viol"] + res["invalid"] if x["i"] == spec["v"]["i"] and x["clause"] == spec["v"]["clause"]]
    print("replay: %s -> %s" % (spec["v"]["clause"], "REPRODUCED: " + found[0]["detail"] if found else "not reproduced"))
    return 1 if found else 0


def explore(prop, seed, t, bdir):
    mult, nconf = (1, 6) if t == "quick" else (12, 16)
    items = []
    for kind in ("packfile", "packdir"):
        for prof, n in PROFILES:
            for i in range(n * mult):
                items.append((bdir, derive(seed, prop, kind, json.dumps(prof, sort_keys=True), i) >> 1, kind, prof, nconf))
    for prof, n in PROFILES[:4]:
        for i in range(max(1, n // 2) * mult):
            items.append((bdir, derive(seed, prop, "packglob", json.dumps(prof, sort_keys=True), i) >> 1, "packglob", prof, nconf))
    return list(pmap_unordered(work, items)), items


def main():
    t = tier()
    seed = master_seed()
    rep = Report(PROP, "exploration")
    bdir = vfbuild.build()
    results, items = explore(PROP, seed, t, bdir)
    for r in results:
        if r["err"]:
            rep.harness_error(r["err"])
    seen = {}
    for r in results:
        for v in r["viol"]:
            seen.setdefault("%s:%s" % (r["case"]["kind"], v["clause"]), (r, v))
    unrep, n_unrep = unrepresentable_checks(bdir, seed)
    for name, what in unrep:
        rep.violation("unrepresentable:" + name, what, rep.write_replay("c01", {"property": PROP, "special": name}))
    for key, (r, v) in sorted(seen.items()):
        casespec = {"seed": r["case"]["seed"], "kind": r["case"]["kind"], "profile": r["case"]["profile"]}
        res = work((bdir, casespec["seed"], casespec["kind"], casespec["profile"], v["i"] + 1))
        again = [x for x in res["viol"] if x["i"] == v["i"] and x["clause"] == v["clause"]]
        if not again:
            rep.harness_error("violation %s did not reproduce in a fresh scratch" % key)
            continue
        spec = {"property": PROP, "case": casespec, "v": {"i": v["i"], "clause": v["clause"]}, "argv": v["cfg"]["argv"], "plan": v["plan"],
                "detail": v["detail"]}
        rep.violation(key, "gensquashfs %s: %s" % (" ".join(v["cfg"]["argv"]), v["detail"][:300]), rep.write_replay("c01", spec))
    runs = sum(r["runs"] for r in results)
    layouts = set()
    for r in results:
        layouts.update(r["layouts"])
    cov = {
        "evaluations": runs + n_unrep,
        "distinct_nontrivial": sum(r["ok"] for r in results),
        "rule": "one evaluation = one gensquashfs run (tree x configuration x schedule [x benign faults]) whose image is decoded by the "
                "independent decoder and compared with the model's expected tree; distinct non-trivial = runs that exited 0 and matched "
                "(every run has its own configuration seed)",
        "samples": [dict(r["case"], ok=r["ok"], runs=r["runs"]) for r in results[:4] if r["case"]],
        "fault_free_runs": runs - sum(r["benign_runs"] for r in results),
        "benign_fault_runs": sum(r["benign_runs"] for r in results),
        "reader_side_comparisons": sum(r["reader_checks"] for r in results),
        "layout_classes": sorted(layouts),
        "unrepresentable_input_checks": n_unrep,
        "components_real": ["gensquashfs (all sources)", "rdsquashfs as reader (-u as root, -c, -d)", "codec libraries", "tmpfs"],
        "components_simulated": ["thread schedule", "short I/O / EINTR / readdir permutation (benign runs)", "compressor proxy (store mode)"],
    }
    return rep.finish(cov, ["the input space is sampled by a biased generator, not enumerated",
                            "the independent decoder (py/sqfsdec.py) is trusted as the reference reading of doc/format.adoc"])


if __name__ == "__main__":
    sys.exit(main())
