"""C06 — unpacking any image writes only inside the chosen unpack directory.

tool-sim + path monitor: store-mode images of trees built for rewriting (sibling names of equal
length, symlinks with placeholder targets of the right length) get their directory entry names,
entry types, entry order and symlink targets rewritten through the decoder's field map:
'.', '..', 'a/b', '/abs', embedded NUL, duplicates of a sibling (symlink + dir, symlink + file),
targets pointing at a decoy outside R (relative and absolute). rdsquashfs -u <sub-path> -p R runs
with every subset of -C -O -T -X -Z inside a jail J that contains R plus decoys.
Oracle: (a) during the run every path-taking call (open/openat/mkdir/symlink/mknod/chdir/fchownat/
fchmodat/utimensat/lsetxattr/unlink) is resolved the way the kernel will resolve it and must act
on an object under R (simos jail monitor); (b) after the run the snapshot of J \\ R is unchanged;
(c) exit status 0 or 1.
"""
import os, sys, json, re, shutil, itertools
from common import *
import vfbuild, pipelines, treegen, sqfsdec

PROP = "C06"
LENS = [1, 2, 2, 3, 3, 4, 7]


def build_jail(cd):
    J = os.path.join(cd, "J")
    os.makedirs(os.path.join(J, "outside", "sub"))
    os.makedirs(os.path.join(J, "R"))
    for p, c in (("outside/victim", b"precious"), ("decoy.txt", b"decoy"), ("outside/sub/x", b"x")):
        with open(os.path.join(J, p), "wb") as f:
            f.write(c)
    os.chmod(os.path.join(J, "outside/victim"), 0o600)
    os.utime(os.path.join(J, "outside/victim"), (1000, 1000))
    os.utime(os.path.join(J, "outside"), (1000, 1000))
    return J


def gen_image(bdir, r, cd, J):
    """tree with names of controlled lengths; symlinks with placeholder targets as long as the hostile targets"""
    hostile_targets = [b"../outside", b"..", b"../..", os.fsencode(os.path.join(J, "outside")), b"../outside/victim", b"/", b"../decoy.txt", b".",
                       b"../outside/sub"]
    ents = []
    used = set()
    alpha = "abcdefghijklmnopqrstuvwxyz"

    def nm(L):
        for _ in range(200):
            s = "".join(r.choice(alpha) for _ in range(L)).encode()
            if s not in used:
                used.add(s)
                return s
        raise RuntimeError

    dirs = [b""]
    for _ in range(r.choice([2, 3, 4])):
        parent = r.choice(dirs)
        p = (parent + b"/" if parent else b"") + nm(r.choice(LENS))
        ents.append(treegen.Entry(p, treegen.DIR, mode=0o755, uid=r.choice([0, 1000]), mtime=5, xattrs={b"user.k": b"v"} if r.random() < 0.3 else None))
        dirs.append(p)
    # pairs for the duplicate-name attack: symlink + directory with a child, same parent, same name length, symlink sorts first
    for _ in range(r.choice([1, 2])):
        parent = r.choice(dirs)
        L = r.choice([2, 3, 4])
        a, mid, b2 = sorted([nm(L), nm(L), nm(L)])
        pre = (parent + b"/" if parent else b"")
        # a same-length entry stored BETWEEN the symlink and the directory (for the "case variant in between" rewrite)
        ents.append(treegen.Entry(pre + mid, treegen.FILE, content=b"in between", mode=0o644, mtime=3))
        t = r.choice([b"../outside", os.fsencode(os.path.join(J, "outside")), b"../outside/sub"])
        # symlinks with xattrs are stored as EXTENDED symlink inodes
        ents.append(treegen.Entry(pre + a, treegen.SLINK, mode=0o777, target=b"T" * len(t), xattrs={b"user.l": b"x"} if r.random() < 0.4 else None))
        ents.append(treegen.Entry(pre + b2, treegen.DIR, mode=0o755, mtime=5))
        dirs.append(pre + b2)
        ents.append(treegen.Entry(pre + b2 + b"/victim", treegen.FILE, content=b"overwritten", mode=0o666, mtime=3))
        ents.append(treegen.Entry(pre + b2 + b"/" + nm(3), treegen.FILE, content=b"new file", mode=0o644, mtime=3))
    for _ in range(r.choice([4, 6, 9])):
        parent = r.choice(dirs)
        L = r.choice(LENS)
        p = (parent + b"/" if parent else b"") + nm(L)
        kind = r.random()
        if kind < 0.45:
            ents.append(treegen.Entry(p, treegen.FILE, content=r.randbytes(r.choice([0, 10, 5000])), mode=r.choice([0o644, 0o4755, 0o666]), uid=r.choice([0, 1000]), gid=7, mtime=9,
                                      xattrs={b"user.a": b"1"} if r.random() < 0.3 else None))
        elif kind < 0.85:
            t = r.choice(hostile_targets)
            ents.append(treegen.Entry(p, treegen.SLINK, mode=0o777, target=b"T" * len(t), xattrs={b"user.l": b"y"} if r.random() < 0.4 else None))
        else:
            ents.append(treegen.Entry(p, r.choice([treegen.FIFO, treegen.CHR]), mode=0o600, dev=(1, 3)))
    ents = sorted(ents, key=lambda e: (e.path.count(b"/"), e.path))
    treegen.emit_packfile(ents, cd)
    treegen.emit_xattr_file(ents, cd)
    rr = run_sim(os.path.join(bdir, "plain", "sim-gensquashfs"), ["-c", "gzip", "-b", "4096", "-q", "-j", "1", "-F", "pack.txt", "-D", ".", "-A", "xattr.txt", "clean.sqfs"],
                 cwd=cd, plan="seed 1\nsched rr\nstore 1\n")
    if rr.rc != 0:
        raise RuntimeError("image build failed: %s" % rr.stderr[-200:])
    return ents, hostile_targets


def mutate(r, data, img, hostile_targets):
    b = bytearray(data)
    desc = []
    names = [f for f in img.fields if f[0].endswith(".name")]
    targets = [f for f in img.fields if f[0].endswith(".target")]
    types = [f for f in img.fields if re.search(r"ent\d+\.type$", f[0])]
    if r.random() < 0.35:
        # the classic: a symlink pointing out of R plus a sibling (directory or file) that takes over its name
        links = []
        for fname, off, ln in names:
            m = re.match(r"dir\[(\d+)\]\.ent(\d+)\.name", fname)
            tf = [f for f in img.fields if f[0] == "dir[%s].ent%s.type" % (m.group(1), m.group(2))]
            if tf and int.from_bytes(b[tf[0][1]:tf[0][1] + 2], "little") == 3:
                links.append((fname, off, ln, m.group(1)))
        r.shuffle(links)
        for fname, off, ln, dnum in links:
            sibs = [(n2, o2, l2) for n2, o2, l2 in names if n2.startswith("dir[%s].ent" % dnum) and l2 == ln and o2 != off]
            if not sibs:
                continue
            n2, o2, l2 = r.choice(sibs)
            linkname = bytes(b[off:off + ln])
            b[o2:o2 + l2] = linkname
            desc.append("%s := %r (duplicate of symlink %s)" % (n2, linkname, fname))
            # optionally keep the two duplicates apart with an entry that differs from them only in case (a sort that folds case and
            # is stable leaves the three in their stored order, and a duplicate check on neighbours then sees nothing)
            idx = lambda nme: int(re.match(r"dir\[\d+\]\.ent(\d+)\.name", nme).group(1))
            lo, hi = sorted([idx(fname), idx(n2)])
            between = [(n3, o3, l3) for n3, o3, l3 in names if n3.startswith("dir[%s].ent" % dnum) and l3 == ln and lo < idx(n3) < hi]
            if between and r.random() < 0.5:
                n3, o3, l3 = r.choice(between)
                variant = linkname.swapcase()
                if variant != linkname:
                    b[o3:o3 + l3] = variant
                    desc.append("%s := %r (case variant stored between the two)" % (n3, variant))
            # and point every symlink target that fits out of the root
            for tn, to, tl in targets:
                fits = [t for t in hostile_targets if len(t) == tl and t not in (b".", b"..", b"/")]
                if fits:
                    t = r.choice(fits)
                    b[to:to + tl] = t
                    desc.append("%s -> %r" % (tn, t))
            return bytes(b), desc
    for _ in range(r.choice([1, 1, 2, 3])):
        k = r.random()
        if k < 0.5 and names:
            fname, off, ln = r.choice(names)
            old = bytes(b[off:off + ln])
            cands = []
            if ln == 1:
                cands = [b".", b"/", b"\0"]
            elif ln == 2:
                cands = [b"..", b"./", b"/.", b"a/", b"/a"]
            elif ln == 3:
                cands = [b"../", b"a/b", b"/ab", b"...", b"a\0b", b"/..", b"..\0"]
            else:
                cands = [b"../" + b"x" * (ln - 3), b"/" + b"y" * (ln - 1), b"a/" + b"z" * (ln - 2), old[:1] + b"\0" + old[2:], b"./" + old[2:]]
            # duplicate of a sibling with the same length (same directory: same dir[N] prefix)
            pfx = fname.split(".ent")[0]
            sib = [bytes(b[o:o + l]) for n2, o, l in names if n2.startswith(pfx + ".ent") and l == ln and o != off]
            cands += sib * 3
            cands.append(old.upper())
            new = r.choice(cands)
            b[off:off + ln] = new
            desc.append("%s %r -> %r" % (fname, old, new))
        elif k < 0.85 and targets:
            fname, off, ln = r.choice(targets)
            fits = [t for t in hostile_targets if len(t) == ln]
            if not fits:
                fits = [(b"../" * ln)[:ln], b"/" + b"." * (ln - 1)]
            new = r.choice(fits)
            desc.append("%s -> %r" % (fname, new))
            b[off:off + ln] = new
        elif types:
            fname, off, ln = r.choice(types)
            old = int.from_bytes(b[off:off + 2], "little")
            new = r.choice([1, 2, 3, 7, 8, 0, 15])
            b[off:off + 2] = new.to_bytes(2, "little")
            desc.append("%s %d -> %d" % (fname, old, new))
    return bytes(b), desc


OPTS = ["-C", "-O", "-T", "-X", "-Z"]


def work(a):
    bdir, seed, nmut = a
    res = {"runs": 0, "viol": [], "err": None, "case": {"seed": seed}, "exit0": 0, "exit1": 0, "skipping": 0, "monitored_calls": 0}
    r = rng(seed, "c06")
    try:
        with Scratch("c06") as cd:
            J = build_jail(cd)
            ents, hostile = gen_image(bdir, r, cd, J)
            data = open(os.path.join(cd, "clean.sqfs"), "rb").read()
            img = sqfsdec.decode(data)
            if not img.ok():
                res["err"] = "decoder rejects clean image: %s" % img.errors[0]
                return res
            res["case"].update(bytes=len(data), entries=len(ents))
            subpaths = ["/"] + ["/" + os.fsdecode(e.path) for e in ents if e.type == treegen.DIR]
            R = os.path.join(J, "R")
            before = None
            for i in range(nmut):
                mr = rng(seed, "m", i)
                bad, desc = mutate(mr, data, img, hostile)
                with open(os.path.join(cd, "m.sqfs"), "wb") as f:
                    f.write(bad)
                shutil.rmtree(J)
                J = build_jail(cd)
                before = pipelines.snapshot_dir(J, True)
                before = {k: v for k, v in before.items() if not (k == b"R" or k.startswith(b"R/"))}
                opts = [o for o in OPTS if mr.random() < 0.5]
                sub = mr.choice(subpaths)
                argv = opts + ["-q", "-u", sub, "-p", R, os.path.join(cd, "m.sqfs")]
                use_rel = mr.random() < 0.4
                if use_rel:
                    argv = opts + ["-q", "-u", sub, "-p", "R", os.path.join(cd, "m.sqfs")]
                o = run_sim(os.path.join(bdir, "asan", "sim-rdsquashfs"), argv, plan="seed 1\nsched rr\njail %s\n" % R, cwd=J, timeout=60, cpu=15)
                res["runs"] += 1
                if o.rc == 0:
                    res["exit0"] += 1
                elif o.rc == 1:
                    res["exit1"] += 1
                if b"kipping" in o.stderr:
                    res["skipping"] += 1
                cnt = o.trace.counts()
                res["monitored_calls"] += sum(n for (c, cl), n in cnt.items() if c in ("open", "openat", "mkdir", "symlink", "mknod", "chdir", "fchownat", "fchmodat", "utimensat", "lsetxattr", "unlink"))
                clause = None
                detail = ""
                escapes = [v for v in o.trace.violations() if v.startswith("confinement")]
                after = pipelines.snapshot_dir(J, True)
                after = {k: v for k, v in after.items() if not (k == b"R" or k.startswith(b"R/"))}
                if after != before:
                    ch = [k for k in set(after) | set(before) if after.get(k) != before.get(k)]
                    clause, detail = "outside-changed", "changed outside R: %r" % sorted(ch)[:3]
                elif escapes:
                    clause, detail = "call-outside-root:" + escapes[0].split()[1], escapes[0]
                elif o.timeout:
                    clause = "hang"
                elif o.sig is not None or o.rc not in (0, 1):
                    clause, detail = "crash:%s" % o.verdict, o.stderr[-300:].decode(errors="replace")
                if clause:
                    res["viol"].append({"clause": clause, "detail": detail, "desc": desc, "argv": argv, "i": i,
                                        "stderr": o.stderr[-400:].decode(errors="replace")})
    except Exception as e:
        import traceback
        res["err"] = "%s: %s %s" % (type(e).__name__, e, traceback.format_exc()[-300:])
    return res


def replay(spec, bdir=None):
    bdir = bdir or vfbuild.build()
    w = work((bdir, spec["seed"], spec["i"] + 1))
    found = [v for v in w["viol"] if v["i"] == spec["i"] and v["clause"] == spec["clause"]]
    print("replay: %s -> %s" % (spec["clause"], "REPRODUCED: " + found[0]["detail"] if found else "not reproduced"))
    return 1 if found else 0


def main():
    t = tier()
    seed = master_seed()
    rep = Report(PROP, "exploration")
    bdir = vfbuild.build()
    nimg, nmut = (48, 60) if t == "quick" else (1200, 90)
    results = list(pmap_unordered(work, [(bdir, derive(seed, "c06", i) >> 1, nmut) for i in range(nimg)]))
    for r in results:
        if r["err"]:
            rep.harness_error(r["err"])
    seen = {}
    for r in results:
        for v in r["viol"]:
            kind = "name" if any(".name" in d for d in v["desc"]) else ("target" if any(".target" in d for d in v["desc"]) else "type")
            seen.setdefault("%s:%s" % (v["clause"].split(":")[0] + (":" + v["clause"].split(":")[1] if v["clause"].startswith("call") else ""), kind), (r, v))
    for key, (r, v) in sorted(seen.items()):
        w = work((bdir, r["case"]["seed"], v["i"] + 1))
        if not [x for x in w["viol"] if x["i"] == v["i"] and x["clause"] == v["clause"]]:
            rep.harness_error("violation %s did not reproduce" % key)
            continue
        spec = {"property": PROP, "seed": r["case"]["seed"], "i": v["i"], "clause": v["clause"], "detail": v["detail"], "faults": v["desc"],
                "argv": v["argv"], "stderr": v["stderr"]}
        rep.violation(key, "rdsquashfs %s on an image with %s: %s" % (" ".join(v["argv"][:-1]), "; ".join(v["desc"])[:200], v["detail"][:200]), rep.write_replay("c06", spec))
    cov = {
        "evaluations": sum(r["runs"] for r in results),
        "distinct_nontrivial": sum(r["exit1"] + r["skipping"] for r in results),
        "rule": "one evaluation = one rdsquashfs --unpack-path run (sanitized) on one rewritten image inside a fresh jail; non-trivial = the "
                "tool reacted to the rewrite (exit 1 or a 'skipping' diagnostic); rewritten images are distinct by seed",
        "samples": [r["case"] for r in results[:3]],
        "images": len(results),
        "faults_fired": {"rewritten_images": sum(r["runs"] for r in results)},
        "path_taking_calls_checked_by_monitor": sum(r["monitored_calls"] for r in results),
        "runs_exit0": sum(r["exit0"] for r in results), "runs_exit1": sum(r["exit1"] for r in results),
        "runs_with_skipping_diagnostic": sum(r["skipping"] for r in results),
        "components_real": ["rdsquashfs unpack path (restore_fstree, fill_files, dir_tree, read_tree, filename checks)", "kernel path resolution on tmpfs"],
        "components_simulated": ["stored bytes of names / targets / entry types", "jail monitor on every path-taking call"],
    }
    if cov["path_taking_calls_checked_by_monitor"] == 0:
        rep.harness_error("insufficient reach: the jail monitor saw no calls")
    return rep.finish(cov, ["names are rewritten in place (same length), so only names of the generated lengths occur", "unpacking runs as root"])


if __name__ == "__main__":
    sys.exit(main())
