"""C07 — untrusted tar streams / description files never crash or hang the packers.

tool-sim (sanitized build): stored-byte faults on what tar2sqfs reads from stdin - EOF at seeded and
structural offsets, byte rewrites aimed at every header field (with and without checksum fix-up), at
PAX record lengths / keys / values, sparse maps, inside compressed wrappings - plus hostile hard-link
graphs (cycles, self links, links to directories, chains) and mutated pack / sort / xattr files for
gensquashfs. Oracle: bounded termination (CPU limit), no signal / sanitizer report; exit 0 => the
output decodes and passes the C03 validator; exit != 0 => diagnostic and no output file.
"""
import os, sys, json, re, itertools
from common import *
import vfbuild, pipelines, tarmodel, sqfsdec, treegen

PROP = "C07"
HDR_FIELDS = [("name", 0, 100), ("mode", 100, 8), ("uid", 108, 8), ("gid", 116, 8), ("size", 124, 12), ("mtime", 136, 12),
              ("chksum", 148, 8), ("typeflag", 156, 1), ("linkname", 157, 100), ("magic", 257, 6), ("version", 263, 2),
              ("devmajor", 329, 8), ("devminor", 337, 8), ("prefix", 345, 155), ("gnu_sparse", 386, 97), ("gnu_realsize", 483, 12)]


def fix_checksum(buf, off):
    h = bytearray(buf[off:off + 512])
    h[148:156] = b" " * 8
    s = sum(h)
    buf[off + 148:off + 156] = b"%06o\0 " % s


def classify(o, cd, out_name="out.sqfs"):
    """returns clause or None"""
    if o.timeout or o.rc == 71:      # CPU/wall limit or the simulator's (deterministic) step budget: both mean "did not terminate in bounded time"
        return "hang"
    if o.sig is not None:
        return "crash:signal%d" % o.sig
    if o.rc == 77:
        m = re.search(rb"(AddressSanitizer: [\w-]+|runtime error: [\w ]+)", o.stderr)
        f = re.search(rb"#\d+ 0x[0-9a-f]+ in (\w+) /repo", o.stderr)
        return "sanitizer:%s:%s" % ((m.group(1).decode() if m else "?").replace(" ", "-")[:40], f.group(1).decode() if f else "?")
    if o.rc in (70, 71, 72):
        return "sim:%d" % o.rc
    p = os.path.join(cd, out_name)
    if o.rc != 0:
        if not o.stderr.strip():
            return "nonzero-without-diagnostic"
        if os.path.lexists(p):
            return "output-left-behind"
        return None
    if not os.path.exists(p):
        return "exit0-without-output"
    img = sqfsdec.decode(p)
    if not img.ok():
        return "exit0-invalid-image:" + re.sub(r"\d+", "N", img.errors[0])[:50]
    if img.invalid:
        return "exit0-invalid-image:" + re.sub(r"\d+", "N", img.invalid[0])[:50]
    return None


SPARSE_WORK_LIMIT = 1 << 24     # bytes of declared sparse real size that -b 4096 packs well inside the CPU budget (4096 blocks)


def declared_sparse_size(blob):
    """Largest real size any sparse member of the (uncompressed) stream *declares*, by a tolerant scan that does not follow the
    archive structure: PAX GNU.sparse.size / GNU.sparse.realsize records anywhere, and the realsize field of every 512-aligned block
    whose typeflag is 'S'. tar2sqfs legitimately does work proportional to that number (it packs the holes), so a run that exceeds the
    CPU budget on an input declaring more than SPARSE_WORK_LIMIT is 'slow by declaration', not an endless loop."""
    cands = []
    for m in re.finditer(rb"GNU\.sparse\.(?:size|realsize)=(\d{1,40})", blob):
        cands.append(int(m.group(1)))
    for off in range(0, len(blob) - 511, 512):
        if blob[off + 156:off + 157] == b"S":
            f = blob[off + 483:off + 495]
            if f[0] & 0x80:
                cands.append(int.from_bytes(bytes([f[0] & 0x7f]) + f[1:], "big"))
            else:
                m = re.match(rb"\s*([0-7]+)", f)
                if m:
                    cands.append(int(m.group(1), 8))
    # a value that does not fit into 64 bits cannot be a size the tool legitimately works through: it has to be refused
    return max([c for c in cands if c < (1 << 64)] or [0])


def run_t2s(bdir, cd, blob, cpu=10):
    with open(os.path.join(cd, "m.tar"), "wb") as f:
        f.write(blob)
    c = pipelines.Case(0, "tar2sqfs")
    c.tool = "tar2sqfs"
    c.stdin = "m.tar"
    c.out_image = "out.sqfs"
    c.outputs = {}
    c.argv = ["-c", "gzip", "-b", "4096", "-q", "-j", "1", "out.sqfs"]
    return pipelines.run_case(bdir, c, cd, "seed 1\nsched rr\n", "asan", timeout=60, cpu=cpu)


def tar_mutations(data, r, n_trunc, n_flip):
    """yields (class, description, bytes)"""
    members = list(tarmodel.walk(data))
    # the generated archive as it is: well-formed, but with the boundary shapes the generator aims at (full-width header fields, long
    # sparse maps, ...) - the memory-safety half of the oracle applies to it like to any other input
    yield ("identity", "unmodified generated archive", bytes(data))
    # truncation: structural offsets + seeded ones
    offs = set()
    for a, b in members[:6]:
        offs.update([a + 1, a + 100, a + 156, a + 157, a + 511, a + 512, a + 513, b - 1, b])
    offs.update(r.randrange(1, len(data)) for _ in range(n_trunc))
    for o in sorted(x for x in offs if 0 < x < len(data))[:n_trunc * 2]:
        yield "truncate", "EOF after %d of %d bytes" % (o, len(data)), data[:o]
    # header field rewrites
    hdrs = []
    off = 0
    while off + 512 <= len(data) and data[off:off + 512] != b"\0" * 512:
        hdrs.append(off)
        szf = data[off + 124:off + 136]
        try:
            size = int.from_bytes(szf[1:], "big") if szf[0] & 0x80 else int(szf.split(b"\0")[0].strip() or b"0", 8)
        except ValueError:
            break
        nxt = off + 512
        if data[off + 156:off + 157] == b"S":
            ext = data[off + 482]
            while ext and nxt + 512 <= len(data):
                ext = data[nxt + 504]
                nxt += 512
        off = nxt + (size + 511) // 512 * 512
    for _ in range(n_flip if hdrs else 0):
        h = r.choice(hdrs)
        name, fo, fl = r.choice(HDR_FIELDS)
        pos = h + fo + r.choice([0, 0, fl - 1, r.randrange(fl)])
        b = bytearray(data)
        val = r.choice([0, 0xFF, 0x80, ord("9"), ord("7"), ord("/"), ord("."), ord(" "), b[pos] ^ (1 << r.randrange(8))])
        if name == "size" and r.random() < 0.3:
            b[h + 124:h + 136] = r.choice([b"77777777777\0", b"\x80" + b"\xff" * 11, b"\xff" * 12, b"00000000000\0", b"99999999999\0"])
        elif name == "typeflag":
            b[pos] = r.choice(list(b"0123456789SxgLKXMNV\0AZ"))
        else:
            b[pos] = val
        fixed = r.random() < 0.6
        if fixed and name != "chksum":
            fix_checksum(b, h)
        yield "field:" + name, "header at %d: %s byte %d := %#x%s" % (h, name, pos - h, b[pos], " (checksum fixed up)" if fixed else ""), bytes(b)
    # PAX record payload rewrites
    for h in hdrs:
        if data[h + 156:h + 157] in (b"x", b"L", b"K"):
            for _ in range(2):
                b = bytearray(data)
                pos = h + 512 + r.randrange(0, 60)
                if pos < len(b):
                    b[pos] = r.choice([0, ord("9"), ord(" "), ord("="), ord("\n"), 0xFF, b[pos] ^ 1])
                    yield "ext-record", "extension payload byte %d := %#x" % (pos - h - 512, b[pos]), bytes(b)


EXTREME = [b"0", b"1", b"-1", b"2147483647", b"2147483648", b"4294967295", b"4294967296", b"9223372036854775807", b"9223372036854775808",
           b"18446744069414584320", b"18446744073709551609", b"18446744073709551615", b"18446744073709551616", b"99999999999999999999",
           b"00000000000000000000000000000012", b"1e9", b"0x10", b" 12", b"12 ", b""]


SMALL = [b"8", b"4096", b"100000", b"16777216", b"5000000", b"12", b"4097"]


def pax_hostile_archives(r, n):
    """PAX / GNU archives whose *numeric* fields carry boundary and overflowing values: record length prefixes, size / uid / gid /
    mtime records, sparse map counts and offsets, long-name sizes, base-256 fields. Checksums are correct, so the parsers see them."""
    out = []
    body = b"hello world\n" * 40

    def member(recs, size_field=None, typeflag=b"0", name=b"file", data=body, sparse_tail=None, magic=b"ustar\0" b"00"):
        blob = b""
        if recs is not None:
            blob += tarmodel._header(b"PaxHeaders/x", 0o644, 0, 0, len(recs), 0, b"x") + tarmodel._pad(recs)
        h = bytearray(tarmodel._header(name, 0o644, 0, 0, len(data), 0, typeflag, magic=magic, sparse_tail=sparse_tail))
        if size_field is not None:
            h[124:136] = size_field
            c07fix(h)
        return blob + bytes(h) + tarmodel._pad(data)

    def c07fix(h):
        h[148:156] = b" " * 8
        s = sum(h)
        h[148:156] = b"%06o\0 " % s

    for _ in range(n):
        k = r.randrange(10)
        v = r.choice(EXTREME)
        tail = member(None, name=b"after", data=b"x" * 10) + b"\0" * 1024
        if k == 0:      # record length prefix
            recs = v + b" path=some/name\n" + tarmodel._pax_record(b"uid", b"5")
            out.append(("pax-record-length", "x record length %r" % v, member(recs) + tail))
        elif k == 1:
            key = r.choice([b"size", b"uid", b"gid", b"mtime", b"GNU.sparse.size", b"GNU.sparse.numblocks", b"GNU.sparse.realsize", b"GNU.sparse.offset",
                            b"GNU.sparse.numbytes", b"GNU.sparse.major", b"GNU.sparse.minor"])
            recs = tarmodel._pax_record(key, v)
            out.append(("pax-number:" + key.decode(), "%s=%r" % (key.decode(), v), member(recs) + tail))
        elif k == 2:    # sparse map 0.1 with hostile numbers
            m = b",".join(r.choice(EXTREME) or b"0" for _ in range(r.choice([1, 2, 3, 4, 7])))
            recs = tarmodel._pax_record(b"GNU.sparse.size", r.choice(EXTREME + SMALL) or b"0") + tarmodel._pax_record(b"GNU.sparse.numblocks", r.choice(EXTREME) or b"1") + \
                tarmodel._pax_record(b"GNU.sparse.map", m)
            out.append(("pax-sparse-map", "map=%r" % m, member(recs) + tail))
        elif k == 3:    # sparse 1.0: the map lives in the data area: count line, then offset/size lines, NUL padded to 512
            if r.random() < 0.5:
                m = (r.choice(EXTREME) or b"1") + b"\n" + b"".join((r.choice(EXTREME) or b"0") + b"\n" for _ in range(r.choice([1, 2, 4])))
            else:
                # well-formed numbers, but the announced count and the lines that follow disagree (too few / too many / exact), the
                # map ends exactly at / just before / just after a 512 byte boundary, and NULs, text or digits follow it
                cnt = r.choice([1, 2, 3, 5, 40, 300])
                have = r.choice([0, 1, 2 * cnt - 1, 2 * cnt, 2 * cnt + 1, cnt])
                nums = [b"%d" % r.choice([0, 1, 512, 4096, 100000]) for _ in range(have)]
                m = b"%d\n" % cnt + b"".join(x + b"\n" for x in nums)
                if r.random() < 0.4:
                    want = r.choice([511, 512, 513, 1023, 1024])
                    if len(m) < want:
                        m = m[:-1] + b"0" * 0 + b"\n"
                        pad = want - len(m)
                        m = b"%0*d\n" % (max(1, pad - 1 + len(b"%d" % cnt)), cnt) + m[len(b"%d\n" % cnt):] if pad > 0 else m
            recs = tarmodel._pax_record(b"GNU.sparse.major", b"1") + tarmodel._pax_record(b"GNU.sparse.minor", b"0") + \
                tarmodel._pax_record(b"GNU.sparse.name", b"sp") + tarmodel._pax_record(b"GNU.sparse.realsize", r.choice(EXTREME + SMALL) or b"0")
            follow = r.choice([body, b"\0" * 1536, b"7" * 1100, b"\n" * 700 + body])
            out.append(("pax-sparse-1.0", "map %r" % m[:60], member(recs, data=tarmodel._pad(m) + follow) + tail))
        elif k == 4:    # header size field: octal extremes and base-256
            sf = r.choice([b"77777777777\0", b"\x80" + b"\xff" * 11, b"\xff" * 12, b"\x80" + b"\0" * 3 + b"\xff" * 8, b"\x80" + b"\0" * 10 + b"\x01",
                           b"99999999999\0", b"           \0", b"-0000000001\0"])
            out.append(("header-size", "size field %r" % sf, member(None, size_field=sf) + tail))
        elif k == 5:    # long name / long link records with hostile sizes
            sf = r.choice([b"00000000000\0", b"77777777777\0", b"00000200000\0", b"\x80" + b"\xff" * 11, b"00000000001\0"])
            out.append(("gnu-longname-size", "L record size %r" % sf, member(None, size_field=sf, typeflag=r.choice([b"L", b"K"]), name=b"././@LongLink",
                                                                           data=b"n" * 300 + b"\0", magic=b"ustar  \0") + member(None) + tail))
        elif k == 6:    # old GNU sparse header with hostile entries
            t = bytearray(126)
            for i in range(4):
                t[i * 24:i * 24 + 12] = r.choice([b"77777777777\0", b"00000000000\0", b"\x80" + b"\xff" * 11, b"00000001000\0"])
                t[i * 24 + 12:i * 24 + 24] = r.choice([b"77777777777\0", b"00000000000\0", b"\xff" * 12, b"00000000010\0"])
            t[96] = r.choice([0, 1])
            t[97:109] = r.choice([b"77777777777\0", b"00000000000\0", b"\x80" + b"\xff" * 11, b"00000100000\0", b"00000000020\0", b"00377777777\0",
                                   b"\x80\0\0\x01" + b"\0" * 8, b"\x80\0\0\0\x80" + b"\0" * 7, b"\x80\x01" + b"\0" * 10])
            out.append(("gnu-sparse-old", "hostile in-header sparse entries", member(None, typeflag=b"S", sparse_tail=bytes(t), magic=b"ustar  \0") + tail))
        elif k == 7:    # xattr records: empty keys, huge base64, bad url-encoding
            recs = r.choice([b"SCHILY.xattr.", b"SCHILY.xattr.user.", b"LIBARCHIVE.xattr.", b"LIBARCHIVE.xattr.user.%", b"LIBARCHIVE.xattr.user.%zz", b"LIBARCHIVE.xattr.user.a%4"])
            val = r.choice([b"", b"====", b"A", b"AAAA" * 3000, b"\xff\xfe", b"QUJD"])
            out.append(("pax-xattr", "%r=%r" % (recs, val[:20]), member(tarmodel._pax_record(recs, val)) + tail))
        elif k == 8:    # the sparse dialects mixed in one extended header, records in any order and repeated (well-formed numbers)
            pool = [(b"GNU.sparse.offset", b"0"), (b"GNU.sparse.numbytes", b"512"), (b"GNU.sparse.offset", b"4096"), (b"GNU.sparse.numbytes", b"8"),
                    (b"GNU.sparse.map", b"0,512"), (b"GNU.sparse.map", b"0,8,4096,8"), (b"GNU.sparse.size", b"8192"), (b"GNU.sparse.numblocks", b"2"),
                    (b"GNU.sparse.major", b"1"), (b"GNU.sparse.minor", b"0"), (b"GNU.sparse.realsize", b"8192"), (b"GNU.sparse.name", b"sp"), (b"size", b"520")]
            seq = [r.choice(pool) for _ in range(r.choice([2, 3, 4, 6, 9]))]
            recs = b"".join(tarmodel._pax_record(a, b2) for a, b2 in seq)
            out.append(("pax-sparse-mixed", " ".join(a.decode().split(".")[-1] for a, _ in seq), member(recs) + tail))
        else:           # record without newline / without '=' / length pointing past the end
            recs = r.choice([b"12 path=abc", b"30 path=abc\n", b"11 pathabcd\n", b"3 =\n", b"5 a=\n\0\0\0", b"012 path=ab\n", b"+12 path=a\n"])
            out.append(("pax-record-syntax", "%r" % recs, member(recs) + tail))
    return out


def fixed_hostile_archives():
    """deterministic members of the `numbers` family (in every run, whatever the seed): base-256 fields that do not fit into 64 bits in
    an otherwise well-formed old GNU sparse member, and in a plain member's size / mtime / uid fields"""
    out = []
    body = b"0123456789abcdef" * 32          # 512 bytes
    tail = tarmodel._header(b"after", 0o644, 0, 0, 10, 0, b"0") + tarmodel._pad(b"x" * 10) + b"\0" * 1024

    def fix(h):
        h[148:156] = b" " * 8
        h[148:156] = b"%06o\0 " % sum(h)
        return bytes(h)

    wide = [b"\x80" + b"\xff" * 11, b"\x80\0\0\x01" + b"\0" * 8, b"\x80\x01" + b"\0" * 10, b"\x80\0\0\0\x80" + b"\0" * 7, b"\xff" + b"\0" * 11, b"\xff\x7f" + b"\xff" * 10]
    for i, w in enumerate(wide):
        t = bytearray(126)
        t[0:12] = b"00000000000\0"; t[12:24] = b"00000001000\0"            # one data segment: offset 0, 512 bytes
        t[97:109] = w                                                      # realsize
        h = bytearray(tarmodel._header(b"sparse%d" % i, 0o644, 0, 0, len(body), 0, b"S", magic=b"ustar  \0", sparse_tail=bytes(t)))
        out.append(("gnu-sparse-old", "realsize field %r" % w, fix(h) + tarmodel._pad(body) + tail))
        for off, ln, what in ((124, 12, "size"), (136, 12, "mtime"), (108, 8, "uid")):
            h = bytearray(tarmodel._header(b"plain%d" % i, 0o644, 0, 0, 0, 0, b"0", magic=b"ustar  \0"))
            h[off:off + ln] = (w + b"\xff" * 12)[:ln] if ln == 12 else w[:1] + w[5:12]
            out.append(("header-" + what, "%s field %r" % (what, bytes(h[off:off + ln])), fix(h) + tail))
    # well-formed POSIX ustar members whose fixed-width fields are filled to the last byte (no terminator inside the field):
    # name (100), prefix (155), link name (100), user / group name (32)
    for label, kw in (("name-100+prefix", dict(name=b"n" * 100, prefix=b"dir1")), ("name-100+prefix-155", dict(name=b"m" * 100, prefix=b"p" * 155)),
                      ("name-100", dict(name=b"o" * 100, prefix=b""))):
        h = bytearray(tarmodel._header(kw["name"], 0o644, 0, 0, 5, 0, b"0", magic=b"ustar\0" b"00", prefix=kw["prefix"]))
        out.append(("ustar-full-fields", label, fix(h) + tarmodel._pad(b"12345") + tail))
    h = bytearray(tarmodel._header(b"lnk", 0o777, 0, 0, 0, 0, b"2", b"t" * 100, magic=b"ustar\0" b"00", prefix=b"dir1"))
    out.append(("ustar-full-fields", "linkname-100", fix(h) + tail))
    h = bytearray(tarmodel._header(b"owner", 0o644, 0, 0, 0, 0, b"0", magic=b"ustar\0" b"00"))
    h[265:297] = b"u" * 32
    h[297:329] = b"g" * 32
    out.append(("ustar-full-fields", "uname/gname-32", fix(h) + tail))
    # several extension records in front of one member: what an earlier record stored (long name, long link target, pax path) meets a
    # later pax header that does not carry that key (and the other way round)
    H = tarmodel._header
    longname = b"dir/" + b"L" * 120

    def ext(kind, payload):
        nm = {b"L": b"././@LongLink", b"K": b"././@LongLink"}.get(kind, b"./PaxHeaders/x")
        return H(nm, 0o644, 0, 0, len(payload), 0, kind, magic=b"ustar  \0" if kind in (b"L", b"K") else b"ustar\0" b"00") + tarmodel._pad(payload)

    recs = {"L": ext(b"L", longname + b"\0"), "K": ext(b"K", b"target/" + b"K" * 120 + b"\0"),
            "x-path": ext(b"x", tarmodel._pax_record(b"path", b"pax/" + b"P" * 110)), "x-mtime": ext(b"x", tarmodel._pax_record(b"mtime", b"1234567.5")),
            "x-link": ext(b"x", tarmodel._pax_record(b"linkpath", b"paxtarget/" + b"Q" * 110)), "x-size": ext(b"x", tarmodel._pax_record(b"size", b"5")),
            "x-uid": ext(b"x", tarmodel._pax_record(b"uid", b"70000") + tarmodel._pax_record(b"gid", b"70001")),
            "g": ext(b"g", tarmodel._pax_record(b"mtime", b"99"))}
    members = {"file": H(b"short", 0o644, 0, 0, 5, 0, b"0") + tarmodel._pad(b"12345"), "symlink": H(b"slink", 0o777, 0, 0, 0, 0, b"2", b"tgt"),
               "hardlink": H(b"hlink", 0o644, 0, 0, 0, 0, b"1", b"after")}
    names = sorted(recs)
    for a in names:
        for b in names:
            for mk in sorted(members):
                if a == b and a != "x-mtime":
                    continue
                out.append(("ext-record-sequence", "%s, %s, then a %s member" % (a, b, mk), recs[a] + recs[b] + members[mk] + tail))
    for a in names:
        out.append(("ext-record-sequence", "%s, then the end-of-archive marker" % a, recs[a] + b"\0" * 1024))
    return out


def hardlink_graphs(r):
    """small hostile link graphs as tar members (order matters: the resolver starts from the most recent link)"""
    nodes = [b"a", b"b", b"c"]
    out = []
    pairs = [(x, y) for x in nodes for y in nodes]
    for k in (1, 2, 3):
        for combo in itertools.permutations(pairs, k):
            if len(set(s for s, _ in combo)) != k:
                continue
            out.append(combo)
    r.shuffle(out)
    return out


def emit_links(combo, r, with_dir=False):
    ents = []
    if with_dir:
        ents.append(tarmodel.TEntry(b"d", "dir", mode=0o755))
    ents.append(tarmodel.TEntry(b"real", "file", content=b"x"))
    for s, t in combo:
        ents.append(tarmodel.TEntry(s, "hlink", target=(b"d" if with_dir and r.random() < 0.3 else t), mode=0o777))
    data, _ = tarmodel.emit_archive(ents, "ustar", r)
    return data


def tar_work(a):
    bdir, seed, mode = a
    res = {"runs": 0, "viol": [], "err": None, "case": {"seed": seed, "mode": mode}, "classes": {}, "rejected": 0, "accepted": 0}
    r = rng(seed, "c07", mode)
    try:
        with Scratch("c07") as cd:
            if mode == "numbers":
                muts = pax_hostile_archives(r, 60) + fixed_hostile_archives()
            elif mode == "links":
                muts = []
                for combo in hardlink_graphs(r)[:40]:
                    muts.append(("hardlink-graph", "links %s" % " ".join("%s->%s" % (s.decode(), t.decode()) for s, t in combo), emit_links(combo, r, r.random() < 0.2)))
            else:
                model = tarmodel.gen_archive_model(r, nfiles=4, ndirs=1, xattrs=True, hardlinks=True, sparse=True)
                dialect = r.choice(["ustar", "gnu", "pax", "pax"])
                data, kept = tarmodel.emit_archive(model, dialect, r)
                res["case"]["dialect"] = dialect
                res["case"]["bytes"] = len(data)
                if mode == "wrapped":
                    import c15
                    codec = r.choice(c15.CODECS)
                    blob = c15.compress(codec, data, r)
                    muts = []
                    for _ in range(25):
                        b = bytearray(blob)
                        if r.random() < 0.5:
                            muts.append(("codec-truncate:" + codec, "cut", bytes(b[:r.randrange(1, len(b))])))
                        else:
                            for _ in range(r.choice([1, 1, 3])):
                                b[r.randrange(len(b))] = r.randrange(256)
                            muts.append(("codec-corrupt:" + codec, "bytes rewritten", bytes(b)))
                else:
                    muts = list(tar_mutations(data, r, 25, 45))
            for cls, desc, blob in muts:
                o = run_t2s(bdir, cd, blob, cpu=5 if mode == "numbers" else 10)
                res["runs"] += 1
                res["classes"][cls.split(":")[0]] = res["classes"].get(cls.split(":")[0], 0) + 1
                cl = classify(o, cd)
                if cl == "hang" and declared_sparse_size(blob) > SPARSE_WORK_LIMIT:
                    cl = None
                    res["classes"]["slow-by-declared-sparse-size"] = res["classes"].get("slow-by-declared-sparse-size", 0) + 1
                if o.rc == 0:
                    res["accepted"] += 1
                elif o.rc == 1:
                    res["rejected"] += 1
                if cl:
                    res["viol"].append({"clause": cl, "class": cls, "detail": desc, "stderr": o.stderr[-300:].decode(errors="replace"),
                                        "blob": blob.hex() if len(blob) < 6000 else None})
    except Exception as e:
        import traceback
        res["err"] = "%s: %s %s" % (type(e).__name__, e, traceback.format_exc()[-300:])
    return res


TEXT_INJECT = [b'"', b"\\", b"\0", b"\r", b" ", b"\t", b"#", b"\n", b"\xff", b"9" * 30, b"/", b"..", b"=", b"0x", b"[", b"]", b","]


def text_work(a):
    bdir, seed = a
    res = {"runs": 0, "viol": [], "err": None, "case": {"seed": seed, "mode": "text"}, "classes": {}, "rejected": 0, "accepted": 0}
    r = rng(seed, "c07text")
    try:
        with Scratch("c07t") as cd:
            ents = treegen.gen_tree(r, nfiles=4, ndirs=2, hostile=True, xattrs=True, hardlinks=True)
            ents = [e for e in ents if treegen.packfile_representable(e)]
            treegen.emit_packfile(ents, cd)
            treegen.emit_xattr_file(ents, cd)
            files = [e for e in ents if e.type == treegen.FILE]
            with open(os.path.join(cd, "sort.txt"), "wb") as f:
                for e in files[:3]:
                    f.write(b"%d [%s] %s\n" % (r.randrange(-5, 5), r.choice([b"glob", b"dont_compress", b"dont_fragment,nosparse", b"glob_no_path"]), treegen.quote(e.path)))
            orig = {n: open(os.path.join(cd, n), "rb").read() for n in ("pack.txt", "sort.txt", "xattr.txt")}
            for i in range(60):
                target = r.choice(["pack.txt", "pack.txt", "sort.txt", "xattr.txt"])
                b = bytearray(orig[target])
                kind = r.choice(["flip", "inject", "truncate", "dupline", "nonl", "lineend", "lineend"])
                if not b:
                    continue
                if kind == "flip":
                    for _ in range(r.choice([1, 2, 5])):
                        b[r.randrange(len(b))] = r.randrange(256)
                elif kind == "inject":
                    p = r.randrange(len(b))
                    b[p:p] = r.choice(TEXT_INJECT)
                elif kind == "truncate":
                    del b[r.randrange(len(b)):]
                elif kind == "lineend":
                    # damage aimed at how ONE line ends: quotes that are never closed, a backslash as the last character (inside and
                    # outside quotes), a bracket list without its end, a line cut right behind an escape character
                    lines = bytes(b).split(b"\n")
                    cand = [k for k, l in enumerate(lines) if l.strip()]
                    if cand:
                        k = r.choice(cand)
                        l = lines[k]
                        how = r.randrange(10)
                        if how >= 8 and b"=0s" in l:
                            # base64 values whose digit count is not a multiple of four: padding removed / a digit removed or added
                            l = r.choice([l.rstrip(b"="), l.rstrip(b"=")[:-1], l.rstrip(b"=") + b"A", l[:-1], l.replace(b"=", b"", l.count(b"=") - 1) if l.count(b"=") > 1 else l + b"="])
                        elif how == 0:
                            l = l + b"\\"
                        elif how == 1:
                            l = l.rstrip(b'"')                                   # closing quote gone
                        elif how == 2:
                            l = l.rstrip(b'"') + b"\\"                           # unclosed and ending in a backslash
                        elif how == 3 and b"\\" in l:
                            l = l[:l.index(b"\\") + 1]                           # cut right behind the first backslash
                        elif how == 4 and b'"' in l:
                            l = l[:l.index(b'"') + 1 + r.randrange(3)]          # cut just inside the quotes
                        elif how == 5:
                            l = l + b' "abc\\'
                        elif how == 6 and b"]" in l:
                            l = l.replace(b"]", b"", 1)
                        else:
                            l = l[:r.randrange(len(l) + 1)] + b"\\"
                        lines[k] = l
                        b = bytearray(b"\n".join(lines))
                elif kind == "lineend" and False:
                    pass
                elif kind == "dupline":
                    lines = bytes(b).split(b"\n")
                    lines.insert(r.randrange(len(lines)), r.choice(lines))
                    b = bytearray(b"\n".join(lines))
                else:
                    b = bytearray(bytes(b).rstrip(b"\n"))
                for n, content in orig.items():
                    with open(os.path.join(cd, n), "wb") as f:
                        f.write(bytes(b) if n == target else content)
                c = pipelines.Case(0, "gen")
                c.tool = "gensquashfs"
                c.out_image = "out.sqfs"
                c.outputs = {}
                c.argv = ["-c", "gzip", "-b", "4096", "-q", "-j", "1", "-F", "pack.txt", "-D", ".", "-S", "sort.txt", "-A", "xattr.txt", "out.sqfs"]
                o = pipelines.run_case(bdir, c, cd, "seed 1\nsched rr\n", "asan", timeout=60, cpu=10)
                res["runs"] += 1
                cls = "text:%s:%s" % (target, kind)
                res["classes"]["text:" + target] = res["classes"].get("text:" + target, 0) + 1
                cl = classify(o, cd)
                if o.rc == 0:
                    res["accepted"] += 1
                elif o.rc == 1:
                    res["rejected"] += 1
                if cl:
                    res["viol"].append({"clause": cl, "class": cls, "detail": "%s %s" % (target, kind), "stderr": o.stderr[-300:].decode(errors="replace"),
                                        "blob": None, "file": target, "content": bytes(b).hex() if len(b) < 4000 else None, "i": i})
    except Exception as e:
        import traceback
        res["err"] = "%s: %s %s" % (type(e).__name__, e, traceback.format_exc()[-300:])
    return res


def replay(spec, bdir=None):
    bdir = bdir or vfbuild.build()
    if spec.get("blob"):
        with Scratch("c07r") as cd:
            o = run_t2s(bdir, cd, bytes.fromhex(spec["blob"]))
            cl = classify(o, cd)
            if cl == "hang" and declared_sparse_size(bytes.fromhex(spec["blob"])) > SPARSE_WORK_LIMIT:
                cl = None
    else:
        w = text_work((bdir, spec["seed"])) if spec["mode"] == "text" else tar_work((bdir, spec["seed"], spec["mode"]))
        cl = spec["clause"] if any(v["clause"] == spec["clause"] for v in w["viol"]) else None
    print("replay: %s expected %s -> %s" % (cl, spec["clause"], "REPRODUCED" if cl == spec["clause"] else "not reproduced"))
    return 1 if cl == spec["clause"] else 0


def main():
    t = tier()
    seed = master_seed()
    rep = Report(PROP, "exploration")
    bdir = vfbuild.build()
    mult = 1 if t == "quick" else 25
    items = []
    for i in range(14 * mult):
        items.append(("tar", (bdir, derive(seed, "c07", i) >> 1, "plain")))
    for i in range(4 * mult):
        items.append(("tar", (bdir, derive(seed, "c07w", i) >> 1, "wrapped")))
    for i in range(2 * mult):
        items.append(("tar", (bdir, derive(seed, "c07l", i) >> 1, "links")))
    for i in range(8 * mult):
        items.append(("tar", (bdir, derive(seed, "c07n", i) >> 1, "numbers")))
    for i in range(8 * mult):
        items.append(("text", (bdir, derive(seed, "c07t", i) >> 1)))
    results = list(pmap_unordered(_dispatch, items))
    for r in results:
        if r["err"]:
            rep.harness_error(r["err"])
    seen = {}
    for r in results:
        for v in r["viol"]:
            key = "%s:%s:%s" % ("gensquashfs" if r["case"]["mode"] == "text" else "tar2sqfs", v["class"].split(":")[0] + (":" + v["class"].split(":")[1] if v["class"].startswith(("field", "text")) else ""), v["clause"])
            seen.setdefault(key, (r, v))
    for key, (r, v) in sorted(seen.items()):
        spec = {"property": PROP, "seed": r["case"]["seed"], "mode": r["case"]["mode"], "clause": v["clause"], "class": v["class"], "detail": v["detail"],
                "blob": v.get("blob"), "stderr": v["stderr"]}
        if replay_quiet(spec, bdir) != 1:
            rep.harness_error("violation %s did not reproduce" % key)
            continue
        rep.violation(key, "%s: %s -> %s %s" % (v["class"], v["detail"], v["clause"], v["stderr"][-120:].replace("\n", " ")), rep.write_replay("c07", spec))
    classes = {}
    for r in results:
        for k, n in r["classes"].items():
            classes[k] = classes.get(k, 0) + n
    runs = sum(r["runs"] for r in results)
    cov = {
        "evaluations": runs,
        "distinct_nontrivial": sum(r["rejected"] for r in results) + sum(r["accepted"] for r in results),
        "rule": "one evaluation = one packer run (sanitized build) on one mutated input; all mutations are distinct by construction (seeded "
                "position/value); non-trivial = the run ended with exit 0 or 1 (i.e. the input was actually parsed to a verdict)",
        "samples": [r["case"] for r in results[:4]],
        "faults_fired": classes,
        "inputs_rejected_cleanly": sum(r["rejected"] for r in results),
        "inputs_accepted_with_valid_image": sum(r["accepted"] for r in results) - sum(1 for r in results for v in r["viol"] if v["clause"].startswith("exit0")),
        "sanitizer": "AddressSanitizer + UBSan subset",
        "components_real": ["tar2sqfs (lib/tar, lib/xfrm, fstree, writer)", "gensquashfs text parsers"],
        "components_simulated": ["stored bytes of the input stream / text files (rewrites, truncation)", "CPU limit as termination bound"],
    }
    return rep.finish(cov, ["structure-aimed sampling, not coverage-guided fuzzing"])


def _dispatch(x):
    kind, a = x
    return tar_work(a) if kind == "tar" else text_work(a)


def replay_quiet(spec, bdir):
    import io, contextlib
    with contextlib.redirect_stdout(io.StringIO()):
        return replay(spec, bdir)


if __name__ == "__main__":
    sys.exit(main())
