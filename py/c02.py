"""C02 — determinism: image bytes independent of threads, backlog, schedule, environment.

tool-sim: for one input and one set of packing options the image is produced (i) with the serial
reference pool (link-time switch of thread_pool_create), (ii) under many (-j, -Q) settings incl. the
default -j from a simulated CPU count, (iii) under seeded schedules of every policy with spurious
wake-ups and stalled workers, (iv) under different environments (TZ, locale, umask, relative vs
absolute output path, simulated clock), (v) with different allocator junk bytes.
Oracle: sha256(image) identical in all runs and equal to the serial reference; simulator monitors:
no output I/O off the main thread, clock never read.
"""
import os, sys, json, re
from common import *
import vfbuild, blockproc, pipelines

PROP = "C02"
QUICK = [
    ("gen-packfile", {"nfiles": 10, "ndirs": 3, "bs": 4096, "big": True}, 6, 40),
    ("gen-packfile", {"nfiles": 14, "ndirs": 2, "bs": 4096, "xattrs": True, "hardlinks": True}, 4, 40),
    ("gen-packfile", {"nfiles": 8, "ndirs": 2, "bs": 8192, "big": True, "notail": True}, 2, 30),
    ("gen-packfile", {"nfiles": 2, "ndirs": 2, "bs": 4096, "duptails": 30, "comp": "gzip"}, 3, 40),
    ("tar2sqfs", {"nfiles": 2, "ndirs": 1, "bs": 4096, "duptails": 24}, 2, 40),
    ("gen-packfile", {"nfiles": 8, "ndirs": 1, "bs": 4096, "tiny": 40, "big": True, "comp": "gzip", "xopts": True, "notail": True}, 2, 40),
    ("gen-packfile", {"nfiles": 12, "ndirs": 2, "bs": 4096, "big": True, "xopts": True}, 2, 40),
    ("gen-packdir", {"nfiles": 10, "ndirs": 3, "bs": 4096, "big": True, "xattrs": "safe", "hardlinks": True}, 4, 40),
    ("tar2sqfs", {"nfiles": 10, "ndirs": 2, "bs": 4096, "big": True}, 5, 40),
    ("tar2sqfs", {"nfiles": 8, "ndirs": 2, "bs": 4096, "wrap": "xz", "big": True}, 2, 30),
]
ENVS = [{"TZ": "UTC", "LC_ALL": "C"}, {"TZ": "Asia/Kolkata", "LC_ALL": "C.UTF-8"}, {"TZ": "America/St_Johns", "LC_ALL": "POSIX", "LANG": "de_DE.UTF-8"},
        {"TZ": "Pacific/Chatham", "LC_ALL": "en_US.UTF-8"}]


def strip_jq(argv):
    out, skip = [], 0
    for a in argv:
        if skip:
            skip -= 1
            continue
        if a in ("-j", "-Q"):
            skip = 1
            continue
        out.append(a)
    return out


def gen_variant(r, i):
    v = {"env": r.choice(ENVS), "umask": r.choice([0o22, 0o77, 0, 0o27]), "abs_out": r.random() < 0.3}
    j = r.choice([None, 1, 1, 2, 2, 3, 4, 4, 5, 8, 16, 64])
    v["j"] = j
    v["ncpu"] = r.choice([1, 2, 3, 4, 7, 16, 64]) if j is None else None
    eff = j or v["ncpu"]
    v["Q"] = r.choice([None, 1, 2, 3, 5, 10 * eff, 1000])
    pol = r.choice(["random", "random", "random", "pct", "pct", "rr"])
    lines = ["seed %d" % r.randrange(1, 1 << 62), "readdir 0", "record 1"]
    if pol == "pct":
        lines.append("sched pct %d %d" % (r.choice([1, 2, 3, 5]), r.choice([200, 1000, 5000])))
    else:
        lines.append("sched " + pol)
    if pol == "random":
        lines.append("sticky %d" % r.choice([0, 0, 300, 700, 950]))
    if r.random() < 0.4:
        lines.append("spurious %d" % r.choice([5, 50, 300]))
    if r.random() < 0.35:
        lines.append("stall %d %d %d" % (r.randrange(0, eff + 1), r.randrange(0, 400), r.choice([20, 100, 1000, 20000])))
    if v["ncpu"]:
        lines.append("ncpu %d" % v["ncpu"])
    lines.append("junk %d" % r.choice([0, 0xA5, 0xFF, 0x5A]))
    lines.append("clock %d %d" % (r.choice([0, 1700000000, 2147483647, 4102444800]), r.choice([1, 86400, -3600])))
    # (drawn last so that everything above stays what it was for a given seed)
    if r.random() < 0.35:
        lines.append("cmpyield 2")
    v["plan"] = "\n".join(lines) + "\n"
    return v


def variant_argv(case, casedir, v):
    argv = strip_jq(case.argv)
    out = argv[-1]
    opts = argv[:-1]
    if v.get("j") is not None:
        opts += ["-j", str(v["j"])]
    if v.get("Q") is not None:
        opts += ["-Q", str(v["Q"])]
    if v.get("abs_out"):
        out = os.path.join(casedir, out)
    return opts + [out]


def run_variant(bdir, case, cd, v, build="plain"):
    return pipelines.run_case(bdir, case, cd, v["plan"], build, extra_env=v.get("env"), argv=variant_argv(case, cd, v),
                              umask=v.get("umask"), timeout=180, cpu=60)


SERIAL = {"plan": "seed 1\nreaddir 0\npool serial\nsched rr\n", "j": 1, "Q": None, "env": ENVS[0], "umask": 0o22}


def outcome_sig(o):
    return (o.verdict, o.hashes.get("image"))


def work(a):
    bdir, caseseed, kind, prof, nvar = a
    res = {"runs": 0, "mismatch": [], "case": None, "dhashes": set(), "decisions": 0, "spurious": 0, "stallskip": 0, "threads": 0,
           "clock_reads": 0, "monitor": [], "err": None, "skip": None, "configs": set(), "ref": None}
    try:
        with Scratch("c02") as s:
            cd = os.path.join(s, "case")
            case = pipelines.build_case(bdir, caseseed, kind, prof, cd)
            res["case"] = case.describe()
            ref = run_variant(bdir, case, cd, SERIAL)
            if ref.rc != 0:
                res["skip"] = "serial reference failed: %s" % ref.stderr[-200:]
                return res
            res["ref"] = ref.hashes.get("image")
            for i in range(nvar):
                v = gen_variant(rng(caseseed, "var", i), i)
                o = run_variant(bdir, case, cd, v, "asan" if i % 8 == 7 else "plain")
                res["runs"] += 1
                sc = o.trace.sched()
                res["dhashes"].add(sc.get("dhash"))
                res["decisions"] += int(sc.get("decisions", 0))
                res["spurious"] += int(sc.get("spurious", 0))
                res["stallskip"] += int(sc.get("stallskip", 0))
                res["threads"] += int(sc.get("threads", 0))
                res["configs"].add((v["j"], v["ncpu"], v["Q"]))
                res["clock_reads"] += o.trace.counts().get(("clock", "*"), 0)
                if o.trace.violations():
                    res["monitor"].append({"v": v, "what": o.trace.violations()[0]})
                if outcome_sig(o) != outcome_sig(ref) and len(res["mismatch"]) < 2:
                    rec = " ".join(l[2:] for l in o.trace.lines if l.startswith("C "))
                    res["mismatch"].append({"v": v, "i": i, "got": outcome_sig(o), "rec": rec, "stderr": o.stderr[-300:].decode(errors="replace")})
    except Exception as e:
        res["err"] = "%s: %s" % (type(e).__name__, e)
    res["dhashes"] = len(res["dhashes"])
    res["configs"] = len(res["configs"])
    return res


def rerun(bdir, casespec, v):
    with Scratch("c02r") as s:
        cd = os.path.join(s, "case")
        case = pipelines.build_case(bdir, casespec["seed"], casespec["kind"], casespec["profile"], cd)
        ref = run_variant(bdir, case, cd, SERIAL)
        o = run_variant(bdir, case, cd, v)
        return outcome_sig(ref) != outcome_sig(o), o, ref


def replay_plan(v, rec):
    lines = [l for l in v["plan"].splitlines() if not l.startswith(("sched ", "sticky ", "record "))]
    return dict(v, plan="\n".join(lines + ["sched replay", "choice " + rec]) + "\n")


def replay(spec, bdir=None):
    if spec.get('engine') == 'scn-blockproc':
        return blockproc.replay(spec, bdir)
    bdir = bdir or vfbuild.build()
    differs, o, ref = rerun(bdir, spec["case"], spec["variant"])
    print("replay: serial reference %s ; variant %s -> %s" % (outcome_sig(ref), outcome_sig(o), "REPRODUCED" if differs else "not reproduced"))
    return 1 if differs else 0


def main():
    t = tier()
    seed = master_seed()
    rep = Report(PROP, "exploration")
    bdir = vfbuild.build()
    cm, vm = (2, 2) if t == "quick" else (16, 6)
    items = []
    for kind, prof, ncases, nvar in QUICK:
        for i in range(ncases * cm):
            items.append((bdir, derive(seed, "c02", kind, json.dumps(prof, sort_keys=True), i) >> 1, kind, prof, nvar * vm))
    results = list(pmap_unordered(work, items))
    skipped = [r for r in results if r["skip"]]
    if len(skipped) * 4 > len(results):
        rep.harness_error("too many inputs whose serial reference run fails: %s" % skipped[0]["skip"])
    for r in results:
        if r["err"]:
            rep.harness_error("%s: %s" % ((r["case"] or {}).get("kind"), r["err"]))
    seen = {}
    for r in results:
        for m in r["mismatch"]:
            what = "image-differs" if m["got"][0] == "exit:0" else m["got"][0]
            seen.setdefault("%s:%s" % (r["case"]["tool"], what), (r, m))
        for m in r["monitor"]:
            seen.setdefault("%s:monitor:%s" % (r["case"]["tool"], m["what"].split()[1] if len(m["what"].split()) > 1 else m["what"]), (r, {"v": m["v"], "rec": "", "got": ("monitor", m["what"]), "stderr": ""}))
    for key, (r, m) in sorted(seen.items()):
        casespec = {"seed": r["case"]["seed"], "kind": r["case"]["kind"], "profile": r["case"]["profile"]}
        v = m["v"]
        if ":monitor:" in key:
            spec = {"property": PROP, "case": casespec, "variant": v, "what": m["got"][1]}
            rep.violation(key, "simulator monitor tripped: %s" % m["got"][1], rep.write_replay("c02", spec))
            continue
        d1, o1, _ = rerun(bdir, casespec, v)
        d2, o2, _ = rerun(bdir, casespec, v)
        if not d1 or not d2 or o1.trace.hash != o2.trace.hash:
            rep.harness_error("mismatch %s did not reproduce identically (%s/%s)" % (key, d1, d2))
            continue
        # minimise: replay form, then fewer threads / smaller backlog / neutral environment / zeroed decisions
        nr = 0
        rec = " ".join(l[2:] for l in o1.trace.lines if l.startswith("C "))
        if rec:
            cand = replay_plan(v, rec)
            nr += 1
            if rerun(bdir, casespec, cand)[0]:
                v = cand

        def cands(v):
            if v.get("j") and v["j"] > 1:
                yield dict(v, j=v["j"] - 1)
                yield dict(v, j=max(1, v["j"] // 2))
            if v.get("Q") not in (None, 1):
                yield dict(v, Q=1)
            if v.get("env") != ENVS[0]:
                yield dict(v, env=ENVS[0])
            if v.get("umask") != 0o22:
                yield dict(v, umask=0o22)
            if v.get("abs_out"):
                yield dict(v, abs_out=False)
            lines = v["plan"].splitlines()
            for i, l in enumerate(lines):
                if l.startswith(("spurious ", "stall ", "junk ", "clock ")):
                    yield dict(v, plan="\n".join(lines[:i] + lines[i + 1:]) + "\n")
                if l.startswith("choice "):
                    ch = l.split()[1:]
                    for cut in (len(ch) // 2, len(ch) * 3 // 4):
                        yield dict(v, plan="\n".join(lines[:i] + ["choice " + " ".join(ch[:cut] or ["0"])] + lines[i + 1:]) + "\n")
        v, n2 = greedy_shrink(v, cands, lambda c: rerun(bdir, casespec, c)[0], 60)
        spec = {"property": PROP, "case": casespec, "variant": v, "original_variant": m["v"], "got": m["got"], "minimise_runs": nr + n2,
                "tool": r["case"]["tool"], "argv": r["case"]["argv"]}
        path = rep.write_replay("c02", spec)
        rep.violation(key, "%s %s: result %s differs from the serial reference under -j %s -Q %s ncpu %s" % (
            r["case"]["tool"], " ".join(r["case"]["argv"]), m["got"], v.get("j"), v.get("Q"), v.get("ncpu")), path)
    runs = sum(r["runs"] for r in results)
    cov = {
        "evaluations": runs + len(results) - len(skipped),
        "distinct_nontrivial": sum(r["dhashes"] for r in results),
        "rule": "one evaluation = one packing run of a fixed input under one (-j, -Q, ncpu, schedule, environment, junk byte); distinct = "
                "distinct scheduler decision-sequence hashes per input (non-trivial: the run made scheduling decisions with >= 2 runnable threads)",
        "samples": [dict(r["case"], serial_reference_sha256=r["ref"], example_variant=gen_variant(rng(r["case"]["seed"], "var", 0), 0))
                    for r in results[:3] if r["case"]],
        "inputs": len(results) - len(skipped),
        "distinct_interleavings": sum(r["dhashes"] for r in results),
        "distinct_jQ_configs_per_input_sum": sum(r["configs"] for r in results),
        "scheduler_decisions": sum(r["decisions"] for r in results),
        "faults_fired": {"spurious_wakeups": sum(r["spurious"] for r in results), "stalled_thread_skips": sum(r["stallskip"] for r in results)},
        "worker_threads_created": sum(r["threads"] for r in results),
        "clock_reads_by_project_code": sum(r["clock_reads"] for r in results),
        "components_real": ["gensquashfs, tar2sqfs incl. block processor, thread pool, block writer, compressors", "tmpfs"],
        "components_simulated": ["thread schedule (mutex/condvar/create/join/yield points)", "CPU count", "clock", "allocator junk",
                                 "readdir order (sorted)", "pool implementation switch for the serial reference"],
    }
    if cov["scheduler_decisions"] == 0 or cov["faults_fired"]["spurious_wakeups"] == 0:
        rep.harness_error("insufficient reach: no scheduling decisions / spurious wake-ups")
    # library-level stage: the same components in-process, many more schedules per workload (scn/blockproc.c, py/blockproc.py)
    lib = blockproc.stage(rep, PROP, bdir, seed, t)
    cov["library_level_stage"] = lib
    cov["evaluations"] = cov.get("evaluations", 0) + lib["runs"]
    cov["distinct_nontrivial"] = cov.get("distinct_nontrivial", 0) + lib["runs_with_interleaving"]
    return rep.finish(cov, ["data races between synchronisation points are invisible to a serialising scheduler",
                            "schedules are sampled, inputs come from the seeded generator"])


if __name__ == "__main__":
    sys.exit(main())
