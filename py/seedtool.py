"""Confirm a breaking change delivered by a sub-agent and file it under /verif/seeded/<name>/.

   python3 py/seedtool.py verify <PROP> [name]   uses /tmp/wt-<PROP> (agent's scratch worktree, patched) and /tmp/wt-<PROP>-work
   python3 py/seedtool.py detect <name> [PROP ...]  applies seeded/<name>/patch.diff to a scratch copy of /repo and runs the quick checks

verify does, in the scratch worktree: (1) `git diff` equals patch.diff and applies to a clean checkout, (2) build + the unedited
89-test suite pass with the change, (3) demo.sh fails with the change, (4) demo.sh passes without it; then copies patch.diff, the
demonstration and notes into seeded/<name>/ with meta.json.
"""
import os, sys, subprocess, shutil, json, time, re
VERIF = os.path.dirname(os.path.dirname(os.path.abspath(__file__)))


def sh(cmd, cwd=None, timeout=3600, env=None):
    p = subprocess.run(cmd, shell=True, cwd=cwd, stdout=subprocess.PIPE, stderr=subprocess.STDOUT, timeout=timeout, env=env)
    return p.returncode, p.stdout.decode(errors="replace")


def suite(wt):
    sh("rm -rf test_tar", wt)
    rc, out = sh("make -j8 > /dev/null 2>&1; make -j8 check 2>&1 | grep -E '^# (PASS|FAIL|ERROR|TOTAL)'", wt)
    sh("rm -rf test_tar", wt)
    m = dict(re.findall(r"# (\w+):\s+(\d+)", out))
    return m.get("PASS") == "89" and m.get("FAIL") == "0" and m.get("ERROR") == "0", out.strip().replace("\n", " ")


def verify(prop, name=None):
    wt, work = "/tmp/wt-%s" % prop, "/tmp/wt-%s-work" % prop
    name = name or "%s-agent" % prop.lower()
    report = {"property": prop, "name": name, "steps": []}

    def step(what, ok, detail=""):
        report["steps"].append({"what": what, "ok": bool(ok), "detail": detail[-600:]})
        print("%-58s %s %s" % (what, "ok" if ok else "FAILED", detail[-200:].replace("\n", " ") if not ok else ""))
        return ok

    patch = os.path.join(work, "patch.diff")
    if not step("patch.diff and demo.sh delivered", os.path.exists(patch) and os.path.exists(os.path.join(work, "demo.sh"))):
        return report, False
    rc, diff = sh("git diff", wt)
    if not diff.strip():
        rc, out = sh("git apply %s" % patch, wt)
        step("worktree was clean: applying patch.diff", rc == 0, out)
    # patch applies to a clean checkout of HEAD
    chk = "/tmp/sv-%s" % prop
    sh("git -C /repo worktree remove --force %s" % chk)
    sh("git -C /repo worktree add -q %s HEAD" % chk)
    rc, out = sh("git apply --check %s" % patch, chk)
    sh("git -C /repo worktree remove --force %s" % chk)
    if not step("patch.diff applies to a clean checkout", rc == 0, out):
        return report, False
    rc, stat = sh("git diff --stat | tail -1", wt)
    rc, files = sh("git diff --name-only", wt)
    report["files"] = files.split()
    report["diffstat"] = stat.strip()
    step("change touches only lib/ or bin/ sources", all(f.startswith(("lib/", "bin/", "include/")) and "/test/" not in f for f in files.split()), files)
    ok, out = suite(wt)
    if not step("patched tree builds and the 89-test suite passes", ok, out):
        return report, False
    env = dict(os.environ)
    rc1, out1 = sh("bash %s/demo.sh" % work, wt, timeout=1800, env=env)
    if not step("demo fails with the change (exit %d)" % rc1, rc1 != 0, out1):
        return report, False
    # (no git stash: the stash is shared by all worktrees of a repository)
    sh("git diff > %s/.current.diff && git checkout -- ." % work, wt)
    sh("make -j8 > /dev/null 2>&1", wt)
    rc2, out2 = sh("bash %s/demo.sh" % work, wt, timeout=1800, env=env)
    sh("git apply %s/.current.diff && rm -f %s/.current.diff" % (work, work), wt)
    sh("make -j8 > /dev/null 2>&1", wt)
    if not step("demo passes without the change (exit %d)" % rc2, rc2 == 0, out2):
        return report, False
    dest = os.path.join(VERIF, "seeded", name)
    shutil.rmtree(dest, ignore_errors=True)
    os.makedirs(dest)
    for f in os.listdir(work):
        src = os.path.join(work, f)
        if os.path.isfile(src) and os.path.getsize(src) < 2_000_000 and not f.endswith((".sqfs", ".o", ".so", ".img", ".tar")):
            shutil.copy(src, dest)
    notes = open(os.path.join(work, "notes.md")).read() if os.path.exists(os.path.join(work, "notes.md")) else ""
    meta = {"property": prop, "name": name, "files_changed": report["files"], "diffstat": report["diffstat"],
            "confirmed": {"suite_with_change": out, "demo_with_change_exit": rc1, "demo_without_change_exit": rc2,
                          "how": "py/seedtool.py verify in the agent's scratch worktree /tmp/wt-%s: git diff == patch.diff, make check, demo.sh with and without the change" % prop},
            "needs_to_manifest": "", "detected_by": [], "notes_excerpt": notes[:1500]}
    with open(os.path.join(dest, "meta.json"), "w") as f:
        json.dump(meta, f, indent=1)
    print("filed under", dest)
    return report, True


def detect(name, props):
    sys.path.insert(0, os.path.join(VERIF, "py"))
    import selftest
    d = os.path.join(VERIF, "seeded", name)
    meta = json.load(open(os.path.join(d, "meta.json")))
    props = props or [meta["property"]]
    repo = selftest.scratch_repo(name)
    results = {}
    try:
        rc, out = sh("git apply --unsafe-paths --directory=%s %s" % (repo, os.path.join(d, "patch.diff")), "/")
        if rc != 0:
            rc, out = sh("patch -p1 -s -d %s -i %s" % (repo, os.path.join(d, "patch.diff")))
            if rc != 0:
                print("patch does not apply:", out)
                return None
        for prop in props:
            t0 = time.time()
            p = subprocess.run([os.path.join(VERIF, "vf"), "check", prop], stdout=subprocess.PIPE, stderr=subprocess.STDOUT,
                               env=dict(os.environ, VERIF_REPO=repo, VERIF_TIER=os.environ.get("VERIF_TIER", "quick")))
            txt = p.stdout.decode(errors="replace")
            keys = [l.strip()[:260] for l in txt.splitlines() if l.strip().startswith("key=")]
            results[prop] = {"exit": p.returncode, "violations": keys[:4], "wall": round(time.time() - t0, 1)}
            print("%s: exit=%d %.0fs %s" % (prop, p.returncode, time.time() - t0, ("\n    " + "\n    ".join(keys[:3])) if keys else txt[-300:] if p.returncode not in (0, 1) else ""))
    finally:
        shutil.rmtree(repo, ignore_errors=True)
    return results


def _main():
    if sys.argv[1] == "detect-all":
        detect_all(sys.argv[2:])
        sys.exit(0)
    if sys.argv[1] == "verify":
        rep, ok = verify(sys.argv[2], sys.argv[3] if len(sys.argv) > 3 else None)
        sys.exit(0 if ok else 1)
    if sys.argv[1] == "detect":
        r = detect(sys.argv[2], sys.argv[3:])
        sys.exit(0)


def detect_all(names=None):
    """run the owning property's quick check (plus any extra ids given in meta['also_try']) on every seeded change and record the outcome"""
    base = os.path.join(VERIF, "seeded")
    for name in sorted(os.listdir(base)):
        if names and name not in names:
            continue
        mp = os.path.join(base, name, "meta.json")
        meta = json.load(open(mp))
        props = [meta["property"]] + meta.get("also_try", [])
        print("==", name)
        r = detect(name, props)
        if r is None:
            continue
        meta["checked_with"] = r
        meta["detected_by"] = sorted(p for p, v in r.items() if v["exit"] == 1 and v["violations"])
        meta["what_was_run"] = "py/seedtool.py detect: patch.diff applied to a scratch copy of /repo HEAD under /dev/shm, `VERIF_REPO=<copy> ./vf check <ID>` (quick tier, seed 1), copy removed"
        json.dump(meta, open(mp, "w"), indent=1)


if __name__ == "__main__":
    _main()
