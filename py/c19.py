"""C19 — copies of library objects are independent, equivalent and safely destroyable.

copy-sim (scn/copy.c): for every copyable kind (5 compressors x 2 directions, fragment table, id
table, meta reader, dir reader with and without dot-entry cache, data reader, xattr reader,
read-only file, xattr writer) a seeded pre-copy history, sqfs_copy, a seeded interleaving of
operations on original and copy, release in either order with more operations on the survivor.
Reference model: twins (independent objects with the same pre-copy history; one receives exactly
the original's operations, the other exactly the copy's). Fault: the j-th allocation inside the copy
hook fails - the copy must be NULL and the original must go on like its twin. Sanitized build for
crashes on release; a LeakSanitizer pass (fault-free) flags leaks whose stack passes a copy hook.
Negative cases: objects without copy hook and writable files must refuse to be copied.
"""
import os, sys, json, re, subprocess
from common import *
import vfbuild, c10

PROP = "C19"


def run_batch(binary, image, master, lo, hi, env=None):
    """runs [lo,hi) with restarts after crashes; returns (viols, crashes, stat)"""
    viols, crashes, stat = [], [], {}
    cur = lo
    while cur < hi:
        p = subprocess.run([binary, "run", image, str(master), str(cur), str(hi)], stdout=subprocess.PIPE, stderr=subprocess.PIPE,
                           env=env, timeout=1800)
        out = p.stdout.decode(errors="replace")
        last = None
        for l in out.splitlines():
            if l.startswith("RUN "):
                last = l
            elif l.startswith("VIOL "):
                m = re.match(r"VIOL kind=(\S+) why=(\S+)(?: spec=(.*))?", l)
                viols.append({"kind": m.group(1), "why": m.group(2), "spec": m.group(3)})
            elif l.startswith("HARNESS "):
                viols.append({"kind": l.split()[1][5:], "why": "harness:" + l.split()[2][4:], "spec": None})
            elif l.startswith("STAT "):
                for kv in l[5:].split():
                    k, v = kv.split("=")
                    try:
                        stat[k] = stat.get(k, 0) + int(v)
                    except ValueError:
                        pass
        if p.returncode == 0:
            break
        err = p.stderr.decode(errors="replace")
        if last is None:
            crashes.append({"kind": "?", "what": "exit %d before any run" % p.returncode, "where": "?", "spec": None, "stderr": err[:1500]})
            break
        m = re.search(r"(AddressSanitizer: [\w-]+|runtime error: [^\n]*)", err)
        f = re.findall(r"#\d+ 0x[0-9a-f]+ in (\w+) /repo", err)
        sm = re.match(r"RUN (\d+) kind=(\S+) spec=(.*)", last)
        crashes.append({"kind": sm.group(2), "what": (m.group(1) if m else "exit %d" % p.returncode).replace(" ", "-")[:50], "where": f[0] if f else "?",
                        "spec": sm.group(3), "stderr": err[:2500]})
        cur = int(sm.group(1)) + 1
    return viols, crashes, stat


def work(a):
    bdir, seed, nruns, variant = a
    res = {"viol": [], "crash": [], "stat": {}, "err": None, "case": {"seed": seed, "variant": variant}, "leaks": []}
    try:
        with Scratch("c19") as cd:
            # every third image has an inode table beyond 64 KiB on disk: inode references above 2^32
            images, info = c10.make_images(bdir, seed, cd, 0, bigmeta=(seed % 3 == 0))
            res["case"].update(info)
            img = os.path.join(cd, "valid.sqfs")
            v, c, st = run_batch(os.path.join(bdir, variant, "scn-copy"), img, seed % 1000003, 0, nruns)
            res["viol"], res["crash"], res["stat"] = v, c, st
            if variant == "asan":
                # fault-free pass under LeakSanitizer
                env = dict(os.environ, ASAN_OPTIONS="detect_leaks=1:exitcode=0:allocator_may_return_null=1", SCN_NO_FAULTS="1")
                p = subprocess.run([os.path.join(bdir, "asan", "scn-copy"), "run", img, str(seed % 999983), "0", str(max(200, nruns // 4))],
                                   stdout=subprocess.PIPE, stderr=subprocess.PIPE, env=env, timeout=1800)
                err = p.stderr.decode(errors="replace")
                for blk in err.split("\n\n"):
                    if "leak of" in blk and re.search(r"_copy|sqfs_copy", blk):
                        f = re.findall(r"#\d+ 0x[0-9a-f]+ in (\w+) /repo", blk)
                        res["leaks"].append({"where": next((x for x in f if "copy" in x), f[0] if f else "?"), "stack": blk[:1200]})
                res["stat"]["lsan_runs"] = max(200, nruns // 4)
    except Exception as e:
        import traceback
        res["err"] = "%s: %s %s" % (type(e).__name__, e, traceback.format_exc()[-300:])
    return res


def run_one(bdir, seed, spec, variant="asan"):
    with Scratch("c19r") as cd:
        images, _ = c10.make_images(bdir, seed, cd, 0, bigmeta=(seed % 3 == 0))
        p = subprocess.run([os.path.join(bdir, variant, "scn-copy"), "spec", os.path.join(cd, "valid.sqfs"), spec], stdout=subprocess.PIPE,
                           stderr=subprocess.PIPE, timeout=600)
        out = p.stdout.decode(errors="replace")
        m = re.search(r"RESULT viol=(\d+) kind=(\S+) why=(\S*)", out)
        return p.returncode, (m.group(3) if m else None), out, p.stderr.decode(errors="replace")


def replay(spec, bdir=None):
    bdir = bdir or vfbuild.build()
    rc, why, out, err = run_one(bdir, spec["seed"], spec["spec"])
    if spec.get("crash"):
        ok = rc not in (0, 1)
    else:
        ok = rc == 1 and why == spec["why"]
    print(out[-1500:])
    print(err[-800:])
    print("replay: rc=%d why=%s -> %s" % (rc, why, "REPRODUCED" if ok else "not reproduced"))
    return 1 if ok else 0


def main():
    t = tier()
    seed = master_seed()
    rep = Report(PROP, "exploration")
    bdir = vfbuild.build()
    nimg, nruns = (16, 2500) if t == "quick" else (160, 40000)
    items = [(bdir, derive(seed, "c19", i) >> 1, nruns, "asan" if i % 2 == 0 else "plain") for i in range(nimg)]
    results = list(pmap_unordered(work, items))
    stat = {}
    for r in results:
        if r["err"]:
            rep.harness_error(r["err"])
        for k, v in r["stat"].items():
            stat[k] = stat.get(k, 0) + v
    seen = {}
    for r in results:
        for v in r["viol"]:
            if v["why"].startswith("harness:"):
                rep.harness_error("%s %s" % (v["kind"], v["why"]))
                continue
            seen.setdefault("%s:%s" % (v["kind"], v["why"]), (r, v, False))
        for c in r["crash"]:
            seen.setdefault("%s:crash:%s:%s" % (c["kind"], c["what"], c["where"]), (r, c, True))
        for l in r["leaks"]:
            seen.setdefault("leak:%s" % l["where"], (r, {"spec": None, "why": "leak", "stack": l["stack"], "kind": "?"}, None))
    for key, (r, v, crash) in sorted(seen.items()):
        if crash is None:
            spec = {"property": PROP, "seed": r["case"]["seed"], "leak": True, "stack": v["stack"]}
            rep.violation(key, "LeakSanitizer: allocation made in a copy hook is never released: %s" % v["stack"][:300].replace("\n", " "), rep.write_replay("c19", spec))
            continue
        if v["spec"] is None:
            spec = {"property": PROP, "seed": r["case"]["seed"], "negative": True, "why": v["why"], "kind": v["kind"]}
            rep.violation(key, "%s: %s" % (v["kind"], v["why"]), rep.write_replay("c19", spec))
            continue
        rc, why, out, err = run_one(bdir, r["case"]["seed"], v["spec"], r["case"]["variant"])
        ok = (rc not in (0, 1)) if crash else (rc == 1 and why == v["why"])
        if not ok:
            rep.harness_error("violation %s did not reproduce (rc %d why %s)" % (key, rc, why))
            continue
        # minimise the numeric spec: fewer pre-copy operations / steps
        k, sd, npre, nsteps, order, j = v["spec"].split()
        best = (int(npre), int(nsteps))
        runs = 0
        for cand in [(0, best[1]), (best[0] // 2, best[1]), (best[0], max(2, best[1] // 2)), (best[0], max(2, best[1] - 1))]:
            runs += 1
            rc2, why2, _, _ = run_one(bdir, r["case"]["seed"], "%s %s %d %d %s %s" % (k, sd, cand[0], cand[1], order, j), r["case"]["variant"])
            if ((rc2 not in (0, 1)) if crash else (rc2 == 1 and why2 == v["why"])) and cand < best:
                best = cand
        final = "%s %s %d %d %s %s" % (k, sd, best[0], best[1], order, j)
        spec = {"property": PROP, "seed": r["case"]["seed"], "spec": final, "why": v.get("why"), "crash": bool(crash), "kind": v["kind"],
                "fields": "kind seed pre_copy_ops steps release_order alloc_fail_j", "stderr": v.get("stderr", "")[:1500], "minimise_runs": runs}
        rep.violation(key, "%s: %s (spec %s)" % (v["kind"], v.get("why") or v.get("what"), final), rep.write_replay("c19", spec))
    cov = {
        "evaluations": stat.get("runs", 0),
        "distinct_nontrivial": stat.get("copies_ok", 0) + stat.get("copies_null_under_fault", 0),
        "rule": "one evaluation = one object life (create, pre-copy history, sqfs_copy, interleaved operations on original and copy vs their twins, "
                "release in a seeded order); distinct by seed; non-trivial = a copy was made, or the copy hook was hit by an allocation failure",
        "samples": [r["case"] for r in results[:3]],
        "operations_compared_with_twin": stat.get("steps", 0),
        "runs_by_kind": {k[2:]: v for k, v in stat.items() if k.startswith("k_")},
        "faults_fired": {"allocation_failures_inside_copy_hook": stat.get("alloc_faults_fired", 0), "copies_refused_under_fault": stat.get("copies_null_under_fault", 0)},
        "leak_sanitizer_runs": stat.get("lsan_runs", 0),
        "runs_skipped_object_could_not_be_created": stat.get("skipped", 0),
        "components_real": ["libsquashfs copy / destroy hooks of every copyable object kind, rbtree, str_table, array, mempool"],
        "components_simulated": ["allocator (j-th allocation in the copy hook fails)", "in-memory sqfs_file_t"],
    }
    if stat.get("copies_ok", 0) == 0 or stat.get("alloc_faults_fired", 0) == 0:
        rep.harness_error("insufficient reach: %s" % stat)
    return rep.finish(cov, ["twins must agree before the copy (checked); kinds whose answers are not a function of their history cannot be judged this way"])


if __name__ == "__main__":
    sys.exit(main())
