/* default sanitizer options for the instrumented variant: a report is exit code 77, never a
 * leak report (LSan is enabled explicitly where wanted), huge allocations return NULL like the
 * real allocator does instead of aborting. */
__attribute__((used, visibility("default"))) const char *__asan_default_options(void);
__attribute__((used, visibility("default"))) const char *__ubsan_default_options(void);

const char *__asan_default_options(void)
{
	return "exitcode=77:detect_leaks=0:allocator_may_return_null=1:max_allocation_size_mb=3072:"
	       "abort_on_error=0:handle_abort=0:detect_stack_use_after_return=0:symbolize=1";
}

const char *__ubsan_default_options(void)
{
	return "halt_on_error=1:exitcode=77:print_stacktrace=1";
}
