/* simos: the simulated "operating system" linked under the real squashfs-tools-ng code.
 *
 * Everything nondeterministic the properties depend on goes through here:
 *   - thread scheduling (sched.c)       - I/O outcomes, stored bytes, crash journal (io.c)
 *   - allocation failures / junk (alloc.c) - readdir order, cpu count, checksum width,
 *     compressor failures, pool implementation, clock (misc.c)
 * One plan (file named by $VERIF_PLAN, or set up programmatically by a scenario driver)
 * decides every outcome; the trace (mmap'ed file $VERIF_TRACE) records what actually fired.
 */
#ifndef SIMOS_H
#define SIMOS_H

#include <stdint.h>
#include <stddef.h>
#include <stdarg.h>

#ifdef __cplusplus
extern "C" {
#endif

/* ---------- core ---------- */
extern int sim_active;              /* a plan is loaded: wrappers interpose */

typedef struct { uint64_t s[4]; } sim_rng_t;
void sim_rng_seed(sim_rng_t *r, uint64_t seed);
uint64_t sim_rng_next(sim_rng_t *r);
uint64_t sim_rng_below(sim_rng_t *r, uint64_t n);      /* uniform in [0,n) ; n>0 */
uint64_t sim_splitmix(uint64_t *x);

extern sim_rng_t sim_rng;           /* the run's PRNG (scheduler + rate based faults) */

void sim_trace(const char *fmt, ...) __attribute__((format(printf, 1, 2)));
void sim_violation(const char *fmt, ...) __attribute__((format(printf, 1, 2)));
void sim_hash_mix(uint64_t v);      /* fold a value into the run hash (no text) */
uint64_t sim_run_hash(void);
void sim_die(int code) __attribute__((noreturn));      /* flush trace + _exit(code) */

/* exit codes used by the simulator itself */
#define SIM_EXIT_DEADLOCK 70
#define SIM_EXIT_BUDGET   71
#define SIM_EXIT_MONITOR  72   /* a monitor invariant tripped (e.g. output I/O off main thread) */
#define SIM_EXIT_PLAN     73   /* malformed plan: harness error */

int  sim_load_plan_file(const char *path);              /* 0 ok */
int  sim_load_plan_text(const char *text);
void sim_reset_all(void);                               /* forget plan + counters (in-process multi-run) */

/* ---------- scheduler ---------- */
enum { SIMSCHED_OFF = 0, SIMSCHED_RANDOM, SIMSCHED_PCT, SIMSCHED_RR, SIMSCHED_REPLAY };

typedef struct {
	int policy;
	int pct_depth;           /* number of priority change points */
	int pct_horizon;         /* change points are drawn from [1,horizon] */
	int sticky_permille;     /* random policy: probability to keep running the current thread */
	int spurious_permille;   /* probability per scheduling point of one spurious cond wake-up */
	long budget;             /* max scheduling points; 0 = default */
	/* replay */
	const uint32_t *choices; size_t nchoices;
	/* stall: thread tid is not scheduled during decisions [from, from+len) unless alone */
	int stall_tid; long stall_from; long stall_len;
} sim_sched_cfg_t;

void sim_sched_configure(const sim_sched_cfg_t *cfg);   /* (re)start scheduling; caller is thread 0 */
void sim_sched_stop(void);                              /* all sim threads must have been joined */
void sim_yield(const char *site);                       /* explicit scheduling point */
int  sim_self(void);                                    /* simulated thread id (0 = main) */
long sim_sched_steps(void);
long sim_sched_decisions(void);                         /* decisions with >= 2 alternatives */
uint64_t sim_sched_hash(void);                          /* hash of the decision sequence */
/* recorded decisions of this run (for replay files) */
const uint32_t *sim_sched_recorded(size_t *n);
/* deadlock handler: default prints state + sim_die(70). A scenario may install its own
   (it must not return). */
extern void (*sim_deadlock_handler)(const char *state);
extern void (*sim_budget_handler)(void);
/* statistics */
typedef struct {
	long steps, decisions, switches, spurious, cond_waits, cond_wait_blocked,
	     mutex_contended, threads_created, max_runnable, stalled_skips, cond_waits_t0;
} sim_sched_stats_t;
extern sim_sched_stats_t sim_sched_stats;

/* ---------- I/O ---------- */
enum { CL_STDIN = 0, CL_STDOUT, CL_STDERR, CL_OUT, CL_IMG, CL_IN, CL_WR, CL_DIR, CL_OTHER, CL_ANY, CL_MAX };
int sim_fd_class(int fd);

/* ---------- allocator ---------- */
long sim_alloc_count(void);
void sim_alloc_fail_set(long k);   /* k-th allocation (absolute ordinal) fails; 0 = never */

/* ---------- misc knobs (set by plan, readable by scenarios) ---------- */
extern int sim_hashbits;      /* 0 = full 32 bit */
extern int sim_store_mode;    /* compressor proxy returns 0 ("does not compress") */
extern long sim_cmpfail_at;   /* k-th compress call fails; 0 = never */
long sim_cmp_calls(void);  /* compressor proxy calls so far */
extern int sim_pool_serial;   /* thread_pool_create -> serial implementation */
extern int sim_ncpu;          /* 0 = real */

/* probes (optional guarded hook in the repository calls this) */
void verif_probe(const char *name);
int  verif_unusual(const char *site);

#ifdef __cplusplus
}
#endif
#endif
