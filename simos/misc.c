/* simos misc seams: readdir order, cpu count, checksum width, pool implementation,
 * compressor proxy, clock, probes. Compiled against the repository's public headers. */
#include "simint.h"
#include <stdio.h>
#include <errno.h>

#include "sqfs/compressor.h"
#include "sqfs/error.h"
#include "util/threadpool.h"
#include "util/util.h"

int sim_hashbits;
int sim_store_mode;
long sim_cmpfail_at;
int sim_pool_serial;
int sim_ncpu;
static int readdir_on;
static uint64_t readdir_seed;
static long clock_start, clock_jump, clock_reads;
static long cmp_calls, cmp_failed, hash_calls, readdir_dirs, readdir_permuted;
static int cmp_yield = 1;

long sim_cmp_calls(void) { return cmp_calls; }

/* ------------------------------------------------------------------ probes */
#define MAXPROBE 64
static struct { char name[48]; long hits; } probes[MAXPROBE];
static int nprobes;

void verif_probe(const char *name)
{
	for (int i = 0; i < nprobes; i++)
		if (!strcmp(probes[i].name, name)) {
			probes[i].hits++;
			return;
		}
	if (nprobes < MAXPROBE) {
		snprintf(probes[nprobes].name, sizeof(probes[nprobes].name), "%s", name);
		probes[nprobes++].hits = 1;
	}
}

int verif_unusual(const char *site)
{
	(void)site;
	return 0;
}

/* ------------------------------------------------------------------ plan */
int sim_misc_plan(int argc, char **argv)
{
	if (!strcmp(argv[0], "hashbits") && argc >= 2) { sim_hashbits = atoi(argv[1]); return 0; }
	if (!strcmp(argv[0], "store") && argc >= 2) { sim_store_mode = atoi(argv[1]); return 0; }
	if (!strcmp(argv[0], "cmpfail") && argc >= 2) { sim_cmpfail_at = atol(argv[1]); return 0; }
	if (!strcmp(argv[0], "cmpyield") && argc >= 2) { cmp_yield = atoi(argv[1]); return 0; }
	if (!strcmp(argv[0], "pool") && argc >= 2) { sim_pool_serial = !strcmp(argv[1], "serial"); return 0; }
	if (!strcmp(argv[0], "ncpu") && argc >= 2) { sim_ncpu = atoi(argv[1]); return 0; }
	if (!strcmp(argv[0], "readdir") && argc >= 2) {
		readdir_on = 1;
		readdir_seed = strtoull(argv[1], NULL, 0);
		return 0;
	}
	if (!strcmp(argv[0], "clock") && argc >= 2) {
		clock_start = atol(argv[1]);
		clock_jump = argc >= 3 ? atol(argv[2]) : 1;
		return 0;
	}
	return 1;
}

void sim_misc_reset(void)
{
	sim_hashbits = sim_store_mode = sim_pool_serial = sim_ncpu = 0;
	sim_cmpfail_at = 0;
	readdir_on = 0;
	clock_start = 1700000000; clock_jump = 1; clock_reads = 0;
	cmp_calls = cmp_failed = hash_calls = readdir_dirs = readdir_permuted = 0;
	cmp_yield = 1;
	nprobes = 0;
}

void sim_misc_report(void)
{
	if (cmp_calls || cmp_failed)
		sim_trace("N compress * %ld", cmp_calls);
	if (cmp_failed)
		sim_trace("FC compress fail %ld", cmp_failed);
	if (hash_calls)
		sim_trace("N xxh32 * %ld", hash_calls);
	if (readdir_dirs)
		sim_trace("N readdir_dirs * %ld permuted %ld", readdir_dirs, readdir_permuted);
	if (clock_reads)
		sim_trace("N clock * %ld", clock_reads);
	for (int i = 0; i < nprobes; i++)
		sim_trace("P %s %ld", probes[i].name, probes[i].hits);
}

/* ------------------------------------------------------------------ cpu count */
int __real_sched_getaffinity(pid_t, size_t, cpu_set_t *);
int __wrap_sched_getaffinity(pid_t pid, size_t sz, cpu_set_t *set)
{
	if (!sim_active || sim_ncpu <= 0)
		return __real_sched_getaffinity(pid, sz, set);
	CPU_ZERO_S(sz, set);
	for (int i = 0; i < sim_ncpu && i < (int)(sz * 8); i++)
		CPU_SET_S(i, sz, set);
	return 0;
}

/* ------------------------------------------------------------------ checksum */
sqfs_u32 __real_xxh32(const void *input, const size_t len);
sqfs_u32 __wrap_xxh32(const void *input, const size_t len)
{
	sqfs_u32 h = __real_xxh32(input, len);
	if (!sim_active)
		return h;
	hash_calls++;
	sim_yield("xxh32");
	if (sim_hashbits > 0 && sim_hashbits < 32)
		h &= (1u << sim_hashbits) - 1;
	return h;
}

/* ------------------------------------------------------------------ pool */
thread_pool_t *__real_thread_pool_create(size_t num_jobs, thread_pool_worker_t worker);
thread_pool_t *__wrap_thread_pool_create(size_t num_jobs, thread_pool_worker_t worker)
{
	if (sim_active && sim_pool_serial)
		return thread_pool_create_serial(worker);
	return __real_thread_pool_create(num_jobs, worker);
}

/* ------------------------------------------------------------------ compressor proxy */
typedef struct {
	sqfs_compressor_t base;
	sqfs_compressor_t *real;
	int uncompress;
} proxy_t;

static void proxy_destroy(sqfs_object_t *o)
{
	proxy_t *p = (proxy_t *)o;
	sqfs_drop(p->real);
	free(p);
}

static void proxy_get_configuration(const sqfs_compressor_t *c, sqfs_compressor_config_t *cfg)
{
	const proxy_t *p = (const proxy_t *)c;
	p->real->get_configuration(p->real, cfg);
}

static int proxy_write_options(sqfs_compressor_t *c, sqfs_file_t *f)
{
	proxy_t *p = (proxy_t *)c;
	return p->real->write_options(p->real, f);
}

static int proxy_read_options(sqfs_compressor_t *c, sqfs_file_t *f)
{
	proxy_t *p = (proxy_t *)c;
	return p->real->read_options(p->real, f);
}

static sqfs_s32 proxy_do_block(sqfs_compressor_t *c, const sqfs_u8 *in, sqfs_u32 size, sqfs_u8 *out,
			       sqfs_u32 outsize)
{
	proxy_t *p = (proxy_t *)c;
	if (!p->uncompress) {
		long k = ++cmp_calls;
		if (cmp_yield)
			sim_yield("compress");
		if (sim_cmpfail_at && k == sim_cmpfail_at) {
			cmp_failed++;
			sim_trace("F compress * %ld fail t%d", k, sim_self());
			return SQFS_ERROR_COMPRESSOR;
		}
		if (sim_store_mode)
			return 0;
	}
	{
		sqfs_s32 ret = p->real->do_block(p->real, in, size, out, outsize);
		/* "cmpyield 2": a second scheduling point between the compressor filling the caller's output buffer and the caller
		   looking at it - where a preempted worker thread really stands most of the time */
		if (!p->uncompress && cmp_yield >= 2)
			sim_yield("compressed");
		return ret;
	}
}

static sqfs_object_t *proxy_copy(const sqfs_object_t *o);

static proxy_t *proxy_wrap(sqfs_compressor_t *real, int uncompress)
{
	proxy_t *p = calloc(1, sizeof(*p));
	if (!p)
		return NULL;
	p->base.base.refcount = 1;
	p->base.base.destroy = proxy_destroy;
	p->base.base.copy = proxy_copy;
	p->base.get_configuration = proxy_get_configuration;
	p->base.write_options = proxy_write_options;
	p->base.read_options = proxy_read_options;
	p->base.do_block = proxy_do_block;
	p->real = real;
	p->uncompress = uncompress;
	return p;
}

static sqfs_object_t *proxy_copy(const sqfs_object_t *o)
{
	const proxy_t *p = (const proxy_t *)o;
	sqfs_compressor_t *rc = sqfs_copy(p->real);
	if (!rc)
		return NULL;
	proxy_t *n = proxy_wrap(rc, p->uncompress);
	if (!n) {
		sqfs_drop(rc);
		return NULL;
	}
	return (sqfs_object_t *)n;
}

int __real_sqfs_compressor_create(const sqfs_compressor_config_t *cfg, sqfs_compressor_t **out);
int __wrap_sqfs_compressor_create(const sqfs_compressor_config_t *cfg, sqfs_compressor_t **out)
{
	int ret = __real_sqfs_compressor_create(cfg, out);
	if (ret != 0 || !sim_active || !(sim_store_mode || sim_cmpfail_at || cmp_yield))
		return ret;
	proxy_t *p = proxy_wrap(*out, (cfg->flags & SQFS_COMP_FLAG_UNCOMPRESS) != 0);
	if (!p)
		return ret; /* harness allocation failed: leave the real object in place */
	*out = (sqfs_compressor_t *)p;
	return 0;
}

/* ------------------------------------------------------------------ clock */
time_t __real_time(time_t *);
time_t __wrap_time(time_t *t)
{
	if (!sim_active)
		return __real_time(t);
	time_t v = clock_start + clock_jump * clock_reads++;
	if (t)
		*t = v;
	return v;
}

int __real_clock_gettime(clockid_t, struct timespec *);
int __wrap_clock_gettime(clockid_t id, struct timespec *ts)
{
	if (!sim_active)
		return __real_clock_gettime(id, ts);
	ts->tv_sec = clock_start + clock_jump * clock_reads++;
	ts->tv_nsec = (clock_reads * 7919) % 1000000000;
	return 0;
}

int __real_gettimeofday(struct timeval *, void *);
int __wrap_gettimeofday(struct timeval *tv, void *tz)
{
	if (!sim_active)
		return __real_gettimeofday(tv, tz);
	tv->tv_sec = clock_start + clock_jump * clock_reads++;
	tv->tv_usec = (clock_reads * 7919) % 1000000;
	return 0;
}

/* ------------------------------------------------------------------ readdir */
typedef struct {
	DIR *dir;
	struct dirent *ents;
	size_t n, pos;
	int loaded;
} sdir_t;
#define MAXDIR 256
static sdir_t dirs[MAXDIR];

static sdir_t *dir_get(DIR *d, int create)
{
	sdir_t *freeslot = NULL;
	for (int i = 0; i < MAXDIR; i++) {
		if (dirs[i].dir == d)
			return &dirs[i];
		if (!dirs[i].dir && !freeslot)
			freeslot = &dirs[i];
	}
	if (!create || !freeslot)
		return NULL;
	memset(freeslot, 0, sizeof(*freeslot));
	freeslot->dir = d;
	return freeslot;
}

static int cmp_dirent(const void *a, const void *b)
{
	return strcmp(((const struct dirent *)a)->d_name, ((const struct dirent *)b)->d_name);
}

static int dir_load(sdir_t *s)
{
	size_t cap = 0;
	struct dirent *e;
	errno = 0;
	while ((e = __real_readdir(s->dir)) != NULL) {
		if (s->n == cap) {
			cap = cap ? cap * 2 : 32;
			s->ents = realloc(s->ents, cap * sizeof(struct dirent));
		}
		memset(&s->ents[s->n], 0, sizeof(struct dirent));
		memcpy(&s->ents[s->n], e, e->d_reclen < sizeof(struct dirent) ? e->d_reclen : sizeof(struct dirent));
		s->n++;
	}
	if (errno != 0)
		return -1;
	if (s->n > 1) {
		/* remove the host's order first, then apply the seeded permutation */
		qsort(s->ents, s->n, sizeof(struct dirent), cmp_dirent);
		if (readdir_seed != 0) {
			/* per-directory stream: seed x hash(sorted names) so that the same directory
			   gets the same permutation whatever was opened before it */
			uint64_t h = readdir_seed;
			for (size_t i = 0; i < s->n; i++)
				for (const char *p = s->ents[i].d_name; *p; p++)
					h = (h ^ (unsigned char)*p) * 0x100000001b3ULL;
			sim_rng_t r;
			sim_rng_seed(&r, h);
			if (readdir_seed == 1) {
				for (size_t i = 0; i < s->n / 2; i++) {
					struct dirent t = s->ents[i];
					s->ents[i] = s->ents[s->n - 1 - i];
					s->ents[s->n - 1 - i] = t;
				}
			} else {
				for (size_t i = s->n - 1; i > 0; i--) {
					size_t j = sim_rng_below(&r, i + 1);
					struct dirent t = s->ents[i];
					s->ents[i] = s->ents[j];
					s->ents[j] = t;
				}
			}
			readdir_permuted++;
		}
	}
	readdir_dirs++;
	s->loaded = 1;
	return 0;
}

DIR *__wrap_opendir(const char *path)
{
	if (sim_active) {
		int e = sim_dir_fault(0);
		if (e) { errno = e; return NULL; }
	}
	return __real_opendir(path);
}

DIR *__wrap_fdopendir(int fd)
{
	if (sim_active) {
		int e = sim_dir_fault(1);
		if (e) { errno = e; return NULL; }
	}
	return __real_fdopendir(fd);
}

struct dirent *__wrap_readdir(DIR *d)
{
	if (!sim_active)
		return __real_readdir(d);
	int e = sim_dir_fault(2);
	if (e) { errno = e; return NULL; }
	if (!readdir_on)
		return __real_readdir(d);
	sdir_t *s = dir_get(d, 1);
	if (!s)
		return __real_readdir(d);
	if (!s->loaded && dir_load(s) != 0)
		return NULL;
	if (s->pos >= s->n)
		return NULL;
	return &s->ents[s->pos++];
}

int __wrap_closedir(DIR *d)
{
	sdir_t *s = dir_get(d, 0);
	if (s) {
		free(s->ents);
		memset(s, 0, sizeof(*s));
	}
	return __real_closedir(d);
}
