/* simos scheduler: real pthreads, exactly one holds the baton; every mutex / condvar /
 * create / join / yield is a scheduling point at which a seeded policy decides who runs.
 * The real primitives inside pthread_mutex_t / pthread_cond_t are never touched. */
#include "simint.h"
#include <semaphore.h>
#include <stdio.h>
#include <errno.h>

#define MAXT 80
#define MAXOBJ 64
#define MAXREC (1 << 16)

enum { TS_UNUSED = 0, TS_RUNNABLE, TS_MUTEX, TS_COND, TS_JOIN, TS_FINISHED };

typedef struct {
	sem_t sem;
	int state;
	void *wait_obj;     /* mutex / cond address, or target thread index for join */
	int woken;          /* cond waiter was signalled (or spuriously woken) */
	pthread_t real;
	void *(*fn)(void *);
	void *arg;
	long prio;
	int started;
} sthread_t;

typedef struct { void *addr; int owner; } smutex_t;

static sthread_t T[MAXT];
static int nT;
static int cur;
static __thread int self_id;
static int sched_on;
static sim_sched_cfg_t cfg;
static uint32_t *plan_choices;
static size_t plan_nchoices, plan_capchoices;
static size_t choice_pos;
static smutex_t M[MAXOBJ];
static int nM;
static long steps, decisions;
static uint64_t dhash;
static uint32_t rec[MAXREC];
static size_t nrec;
static long pct_points[16];
static long pct_low = -1;
static int record_on;
sim_sched_stats_t sim_sched_stats;
void (*sim_deadlock_handler)(const char *state);
void (*sim_budget_handler)(void);

int sim_self(void) { return sched_on ? self_id : 0; }
long sim_sched_steps(void) { return steps; }
long sim_sched_decisions(void) { return decisions; }
uint64_t sim_sched_hash(void) { return dhash; }
const uint32_t *sim_sched_recorded(size_t *n) { *n = nrec; return rec; }

static void sem_wait_nointr(sem_t *s)
{
	while (sem_wait(s) != 0 && errno == EINTR)
		;
}

/* one recorded / replayable choice in [0,n) */
static uint32_t decide(uint32_t n, uint32_t random_pick)
{
	uint32_t v;
	if (cfg.policy == SIMSCHED_REPLAY) {
		v = (choice_pos < cfg.nchoices) ? cfg.choices[choice_pos] % n : 0;
		choice_pos++;
	} else {
		v = random_pick;
	}
	if (nrec < MAXREC)
		rec[nrec++] = v;
	dhash = (dhash ^ (v + 1 + ((uint64_t)n << 32))) * 0x100000001b3ULL;
	decisions++;
	sim_sched_stats.decisions++;
	return v;
}

static void describe_state(char *buf, size_t len)
{
	static const char *names[] = { "-", "run", "mutex", "cond", "join", "done" };
	size_t o = 0;
	for (int i = 0; i < nT && o + 40 < len; i++) {
		o += snprintf(buf + o, len - o, "t%d:%s", i, names[T[i].state]);
		if (T[i].state == TS_MUTEX || T[i].state == TS_COND) {
			/* object ordinal instead of an address keeps the trace deterministic */
			int k = -1;
			for (int j = 0; j < nM; j++)
				if (M[j].addr == T[i].wait_obj)
					k = j;
			if (T[i].state == TS_MUTEX)
				o += snprintf(buf + o, len - o, "(m%d)", k);
		}
		if (T[i].state == TS_JOIN)
			o += snprintf(buf + o, len - o, "(t%d)", (int)(intptr_t)T[i].wait_obj);
		buf[o++] = ' ';
		buf[o] = 0;
	}
}

static void deadlock(void)
{
	char buf[1024];
	describe_state(buf, sizeof(buf));
	sim_violation("deadlock no-runnable-thread %s", buf);
	if (sim_deadlock_handler)
		sim_deadlock_handler(buf);
	sim_die(SIM_EXIT_DEADLOCK);
}

static int stalled(int tid)
{
	return cfg.stall_len > 0 && tid == cfg.stall_tid && steps >= cfg.stall_from &&
	       steps < cfg.stall_from + cfg.stall_len;
}

/* choose the next thread to run among the runnable ones; -1 if none */
static int pick_next(void)
{
	int list[MAXT], n = 0;
	int me = self_id;

	/* current thread first: choice 0 == "no preemption" (what shrinking moves towards) */
	if (T[me].state == TS_RUNNABLE)
		list[n++] = me;
	for (int i = 0; i < nT; i++)
		if (i != me && T[i].state == TS_RUNNABLE)
			list[n++] = i;
	if (n == 0)
		return -1;
	if (cfg.policy == SIMSCHED_PCT) {
		for (int k = 0; k < cfg.pct_depth && k < 16; k++)
			if (pct_points[k] == steps && T[me].state == TS_RUNNABLE)
				T[me].prio = pct_low--;
	}
	if (n > sim_sched_stats.max_runnable)
		sim_sched_stats.max_runnable = n;
	if (cfg.stall_len > 0 && n > 1) {
		int m = 0;
		for (int i = 0; i < n; i++) {
			if (stalled(list[i])) {
				sim_sched_stats.stalled_skips++;
				continue;
			}
			list[m++] = list[i];
		}
		if (m > 0)
			n = m;
	}
	if (n == 1)
		return list[0];

	uint32_t pick = 0;
	switch (cfg.policy) {
	case SIMSCHED_RANDOM:
		if (list[0] == me && cfg.sticky_permille > 0 &&
		    (int)sim_rng_below(&sim_rng, 1000) < cfg.sticky_permille)
			pick = 0;
		else
			pick = sim_rng_below(&sim_rng, n);
		break;
	case SIMSCHED_PCT: {
		long best = T[list[0]].prio;
		for (int i = 1; i < n; i++)
			if (T[list[i]].prio > best) {
				best = T[list[i]].prio;
				pick = i;
			}
		break;
	}
	case SIMSCHED_RR: {
		/* lowest thread id greater than me, wrapping */
		int bestid = -1, first = -1, firstidx = 0;
		for (int i = 0; i < n; i++) {
			if (first < 0 || list[i] < first) {
				first = list[i];
				firstidx = i;
			}
			if (list[i] > me && (bestid < 0 || list[i] < bestid)) {
				bestid = list[i];
				pick = i;
			}
		}
		if (bestid < 0)
			pick = firstidx;
		break;
	}
	default:
		pick = 0;
	}
	pick = decide(n, pick);
	return list[pick];
}

static void switch_to(int next)
{
	int me = self_id;
	if (next == me)
		return;
	sim_sched_stats.switches++;
	cur = next;
	sem_post(&T[next].sem);
	sem_wait_nointr(&T[me].sem);
}

static void maybe_spurious(void)
{
	int w[MAXT], n = 0;
	if (cfg.spurious_permille <= 0 && cfg.policy != SIMSCHED_REPLAY)
		return;
	for (int i = 0; i < nT; i++)
		if (T[i].state == TS_COND)
			w[n++] = i;
	if (n == 0)
		return;
	uint32_t pick = 0;
	if (cfg.policy != SIMSCHED_REPLAY) {
		if ((int)sim_rng_below(&sim_rng, 1000) < cfg.spurious_permille)
			pick = 1 + sim_rng_below(&sim_rng, n);
	} else if (cfg.spurious_permille <= 0) {
		return;
	}
	pick = decide(n + 1, pick);
	if (pick > 0) {
		T[w[pick - 1]].state = TS_RUNNABLE;
		T[w[pick - 1]].woken = 2;
		sim_sched_stats.spurious++;
	}
}

static void step(void)
{
	steps++;
	sim_sched_stats.steps++;
	if (cfg.budget > 0 && steps > cfg.budget) {
		sim_violation("budget scheduling-steps>%ld", cfg.budget);
		if (sim_budget_handler)
			sim_budget_handler();
		sim_die(SIM_EXIT_BUDGET);
	}
}

static void sched_point(void)
{
	step();
	maybe_spurious();
	int next = pick_next();
	if (next < 0)
		deadlock();
	switch_to(next);
}

/* current thread cannot continue: hand the baton to somebody else */
static void block_on(int state, void *obj)
{
	int me = self_id;
	T[me].state = state;
	T[me].wait_obj = obj;
	step();
	maybe_spurious();
	int next = pick_next();
	if (next < 0)
		deadlock();
	switch_to(next);
}

void sim_yield(const char *site)
{
	(void)site;
	if (sched_on)
		sched_point();
}

/* ------------------------------------------------------------------ objects */
static smutex_t *mutex_get(void *addr)
{
	for (int i = 0; i < nM; i++)
		if (M[i].addr == addr)
			return &M[i];
	if (nM == MAXOBJ) {
		sim_violation("harness too-many-mutexes");
		sim_die(SIM_EXIT_PLAN);
	}
	M[nM].addr = addr;
	M[nM].owner = -1;
	return &M[nM++];
}

static void mutex_forget(void *addr)
{
	for (int i = 0; i < nM; i++)
		if (M[i].addr == addr) {
			M[i] = M[--nM];
			return;
		}
}

static void wake_mutex_waiters(void *addr)
{
	for (int i = 0; i < nT; i++)
		if (T[i].state == TS_MUTEX && T[i].wait_obj == addr)
			T[i].state = TS_RUNNABLE;
}

static void sim_lock(pthread_mutex_t *m, int with_point)
{
	smutex_t *sm;
	if (with_point)
		sched_point();
	for (;;) {
		sm = mutex_get(m);
		if (sm->owner < 0) {
			sm->owner = self_id;
			return;
		}
		if (sm->owner == self_id) {
			sim_violation("monitor relock-of-held-mutex t%d", self_id);
			sim_die(SIM_EXIT_MONITOR);
		}
		sim_sched_stats.mutex_contended++;
		block_on(TS_MUTEX, m);
	}
}

static void sim_unlock(pthread_mutex_t *m)
{
	smutex_t *sm = mutex_get(m);
	if (sm->owner != self_id) {
		sim_violation("monitor unlock-of-mutex-not-held t%d owner=%d", self_id, sm->owner);
		sim_die(SIM_EXIT_MONITOR);
	}
	sm->owner = -1;
	wake_mutex_waiters(m);
}

/* ------------------------------------------------------------------ pthread wrappers */
static void *trampoline(void *p)
{
	sthread_t *t = p;
	int id = (int)(t - T);
	self_id = id;
	sem_wait_nointr(&t->sem);
	void *ret = t->fn(t->arg);
	/* finished: wake joiners, hand the baton on, never wait again */
	t->state = TS_FINISHED;
	for (int i = 0; i < nT; i++)
		if (T[i].state == TS_JOIN && (int)(intptr_t)T[i].wait_obj == id)
			T[i].state = TS_RUNNABLE;
	step();
	int next = pick_next();
	if (next < 0)
		deadlock();
	cur = next;
	sem_post(&T[next].sem);
	return ret;
}

int __wrap_pthread_create(pthread_t *th, const pthread_attr_t *attr, void *(*fn)(void *), void *arg)
{
	if (!sched_on)
		return __real_pthread_create(th, attr, fn, arg);
	int fail = sim_fault_simple("pthread_create");
	if (fail)
		return fail;
	if (nT == MAXT) {
		sim_violation("harness too-many-threads");
		sim_die(SIM_EXIT_PLAN);
	}
	sthread_t *t = &T[nT];
	memset(t, 0, sizeof(*t));
	sem_init(&t->sem, 0, 0);
	t->fn = fn;
	t->arg = arg;
	t->state = TS_RUNNABLE;
	t->prio = 1000 + (long)sim_rng_below(&sim_rng, 1000000);
	nT++;
	sim_sched_stats.threads_created++;
	int rc = __real_pthread_create(&t->real, attr, trampoline, t);
	if (rc != 0) {
		nT--;
		return rc;
	}
	*th = t->real;
	sched_point();
	return 0;
}

int __wrap_pthread_join(pthread_t th, void **ret)
{
	if (!sched_on)
		return __real_pthread_join(th, ret);
	int id = -1;
	for (int i = 1; i < nT; i++)
		if (T[i].state != TS_UNUSED && pthread_equal(T[i].real, th))
			id = i;
	if (id < 0)
		return __real_pthread_join(th, ret);
	sched_point();
	while (T[id].state != TS_FINISHED)
		block_on(TS_JOIN, (void *)(intptr_t)id);
	return __real_pthread_join(th, ret);
}

int __wrap_pthread_mutex_init(pthread_mutex_t *m, const pthread_mutexattr_t *a)
{
	if (!sched_on)
		return __real_pthread_mutex_init(m, a);
	int fail = sim_fault_simple("pthread_mutex_init");
	if (fail)
		return fail;
	mutex_forget(m);
	mutex_get(m);
	return 0;
}

int __wrap_pthread_mutex_destroy(pthread_mutex_t *m)
{
	if (!sched_on)
		return __real_pthread_mutex_destroy(m);
	smutex_t *sm = mutex_get(m);
	if (sm->owner >= 0)
		sim_violation("monitor destroy-of-locked-mutex");
	for (int i = 0; i < nT; i++)
		if ((T[i].state == TS_MUTEX) && T[i].wait_obj == m)
			sim_violation("monitor destroy-of-mutex-with-waiters");
	mutex_forget(m);
	return 0;
}

int __wrap_pthread_mutex_lock(pthread_mutex_t *m)
{
	if (!sched_on)
		return __real_pthread_mutex_lock(m);
	sim_lock(m, 1);
	return 0;
}

int __wrap_pthread_mutex_unlock(pthread_mutex_t *m)
{
	if (!sched_on)
		return __real_pthread_mutex_unlock(m);
	sim_unlock(m);
	sched_point();
	return 0;
}

int __wrap_pthread_cond_init(pthread_cond_t *c, const pthread_condattr_t *a)
{
	if (!sched_on)
		return __real_pthread_cond_init(c, a);
	int fail = sim_fault_simple("pthread_cond_init");
	return fail;
}

int __wrap_pthread_cond_destroy(pthread_cond_t *c)
{
	if (!sched_on)
		return __real_pthread_cond_destroy(c);
	for (int i = 0; i < nT; i++)
		if (T[i].state == TS_COND && T[i].wait_obj == c)
			sim_violation("monitor destroy-of-cond-with-waiters");
	return 0;
}

int __wrap_pthread_cond_wait(pthread_cond_t *c, pthread_mutex_t *m)
{
	if (!sched_on)
		return __real_pthread_cond_wait(c, m);
	sim_sched_stats.cond_waits++;
	if (self_id == 0)
		sim_sched_stats.cond_waits_t0++;
	sim_unlock(m);
	T[self_id].woken = 0;
	block_on(TS_COND, c);
	sim_sched_stats.cond_wait_blocked++;
	sim_lock(m, 0);
	return 0;
}

int __wrap_pthread_cond_signal(pthread_cond_t *c)
{
	if (!sched_on)
		return __real_pthread_cond_signal(c);
	int w[MAXT], n = 0;
	for (int i = 0; i < nT; i++)
		if (T[i].state == TS_COND && T[i].wait_obj == c)
			w[n++] = i;
	if (n > 0) {
		uint32_t pick = 0;
		if (n > 1)
			pick = decide(n, cfg.policy == SIMSCHED_REPLAY ? 0 : sim_rng_below(&sim_rng, n));
		T[w[pick]].state = TS_RUNNABLE;
		T[w[pick]].woken = 1;
	}
	sched_point();
	return 0;
}

int __wrap_pthread_cond_broadcast(pthread_cond_t *c)
{
	if (!sched_on)
		return __real_pthread_cond_broadcast(c);
	for (int i = 0; i < nT; i++)
		if (T[i].state == TS_COND && T[i].wait_obj == c) {
			T[i].state = TS_RUNNABLE;
			T[i].woken = 1;
		}
	sched_point();
	return 0;
}

/* ------------------------------------------------------------------ configuration */
void sim_sched_configure(const sim_sched_cfg_t *c)
{
	cfg = *c;
	for (int i = 0; i < nT; i++)
		if (i > 0 && T[i].state != TS_UNUSED)
			sem_destroy(&T[i].sem);
	memset(T, 0, sizeof(T));
	nT = 1;
	self_id = 0;
	cur = 0;
	T[0].state = TS_RUNNABLE;
	T[0].prio = 1000 + (long)sim_rng_below(&sim_rng, 1000000);
	sem_init(&T[0].sem, 0, 0);
	nM = 0;
	steps = decisions = 0;
	dhash = 0xcbf29ce484222325ULL;
	nrec = 0;
	choice_pos = 0;
	pct_low = -1;
	memset(&sim_sched_stats, 0, sizeof(sim_sched_stats));
	if (cfg.budget == 0)
		cfg.budget = 2000000;
	if (cfg.pct_horizon <= 0)
		cfg.pct_horizon = 200;
	if (cfg.pct_depth > 16)
		cfg.pct_depth = 16;
	for (int k = 0; k < cfg.pct_depth; k++)
		pct_points[k] = 1 + (long)sim_rng_below(&sim_rng, cfg.pct_horizon);
	sched_on = (cfg.policy != SIMSCHED_OFF);
}

void sim_sched_stop(void)
{
	sched_on = 0;
}

static sim_sched_cfg_t plan_cfg;
static int plan_has_sched;

int sim_sched_plan(int argc, char **argv)
{
	if (!strcmp(argv[0], "sched") && argc >= 2) {
		plan_has_sched = 1;
		if (!strcmp(argv[1], "off")) plan_cfg.policy = SIMSCHED_OFF;
		else if (!strcmp(argv[1], "random")) plan_cfg.policy = SIMSCHED_RANDOM;
		else if (!strcmp(argv[1], "pct")) {
			plan_cfg.policy = SIMSCHED_PCT;
			plan_cfg.pct_depth = argc >= 3 ? atoi(argv[2]) : 2;
			plan_cfg.pct_horizon = argc >= 4 ? atoi(argv[3]) : 200;
		} else if (!strcmp(argv[1], "rr")) plan_cfg.policy = SIMSCHED_RR;
		else if (!strcmp(argv[1], "replay")) plan_cfg.policy = SIMSCHED_REPLAY;
		else return 1;
		return 0;
	}
	if (!strcmp(argv[0], "record") && argc >= 2) { record_on = atoi(argv[1]); return 0; }
	if (!strcmp(argv[0], "sticky") && argc >= 2) { plan_cfg.sticky_permille = atoi(argv[1]); return 0; }
	if (!strcmp(argv[0], "spurious") && argc >= 2) { plan_cfg.spurious_permille = atoi(argv[1]); return 0; }
	if (!strcmp(argv[0], "budget") && argc >= 2) { plan_cfg.budget = atol(argv[1]); return 0; }
	if (!strcmp(argv[0], "stall") && argc >= 4) {
		plan_cfg.stall_tid = atoi(argv[1]);
		plan_cfg.stall_from = atol(argv[2]);
		plan_cfg.stall_len = atol(argv[3]);
		return 0;
	}
	if (!strcmp(argv[0], "choice")) {
		for (int i = 1; i < argc; i++) {
			if (plan_nchoices == plan_capchoices) {
				plan_capchoices = plan_capchoices ? plan_capchoices * 2 : 256;
				plan_choices = realloc(plan_choices, plan_capchoices * sizeof(uint32_t));
			}
			plan_choices[plan_nchoices++] = strtoul(argv[i], NULL, 0);
		}
		return 0;
	}
	return 1;
}

void sim_sched_plan_done(void)
{
	if (!plan_has_sched)
		plan_cfg.policy = SIMSCHED_RR; /* a plan always owns the schedule */
	plan_cfg.choices = plan_choices;
	plan_cfg.nchoices = plan_nchoices;
	sim_sched_configure(&plan_cfg);
}

void sim_sched_reset(void)
{
	memset(&plan_cfg, 0, sizeof(plan_cfg));
	plan_has_sched = 0;
	plan_nchoices = 0;
	record_on = 0;
	sched_on = 0;
}

void sim_sched_report(void)
{
	if (!sched_on && steps == 0)
		return;
	if (record_on) {
		/* the decision sequence, so that the run can be replayed without the PRNG and shrunk */
		char line[1000];
		size_t o = 0;
		for (size_t i = 0; i < nrec; i++) {
			o += snprintf(line + o, sizeof(line) - o, "%u ", rec[i]);
			if (o > 900 || i + 1 == nrec) {
				sim_trace("C %s", line);
				o = 0;
			}
		}
	}
	sim_trace("S steps=%ld decisions=%ld switches=%ld threads=%ld spurious=%ld condwait=%ld/%ld "
		  "contended=%ld maxrun=%ld stallskip=%ld dhash=%016llx",
		  steps, decisions, sim_sched_stats.switches, sim_sched_stats.threads_created,
		  sim_sched_stats.spurious, sim_sched_stats.cond_wait_blocked, sim_sched_stats.cond_waits,
		  sim_sched_stats.mutex_contended, sim_sched_stats.max_runnable,
		  sim_sched_stats.stalled_skips, (unsigned long long)dhash);
}
