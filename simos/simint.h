/* internal declarations shared by the simos modules */
#ifndef SIMINT_H
#define SIMINT_H

#define _GNU_SOURCE
#include <sys/types.h>
#include <sys/stat.h>
#include <sys/mman.h>
#include <dirent.h>
#include <pthread.h>
#include <sched.h>
#include <time.h>
#include <sys/time.h>
#include <stdlib.h>
#include <string.h>
#include <unistd.h>
#include <fcntl.h>

#include "simos.h"
#include "simreal.h"

/* module hooks: plan line handlers return 0 if they consumed the line, 1 otherwise */
int  sim_sched_plan(int argc, char **argv);
void sim_sched_plan_done(void);
void sim_sched_reset(void);
void sim_sched_report(void);

int  sim_io_plan(int argc, char **argv);
void sim_io_reset(void);
void sim_io_report(void);
void sim_io_start(void);

int  sim_alloc_plan(int argc, char **argv);
void sim_alloc_reset(void);
void sim_alloc_report(void);

int  sim_misc_plan(int argc, char **argv);
void sim_misc_reset(void);
void sim_misc_report(void);

void sim_finish_report(void);

int  sim_fault_simple(const char *callname);      /* errno to fail with, or 0 */
int  sim_dir_fault(int which);                    /* 0 opendir, 1 fdopendir, 2 readdir */
int  sim_alloc_should_fail(const char *fn, void *caller);


#endif
