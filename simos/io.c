/* simos I/O layer: every file system call the project makes passes through here.
 * Pass-through to the real kernel (tmpfs scratch), unless the plan says otherwise:
 * short counts, EINTR, errors, early EOF, stdin chunking, stored-byte corruption,
 * crash journal / kill points, confinement monitor. */
#include "simint.h"
#include <stdio.h>
#include <errno.h>
#include <signal.h>
#include <stdarg.h>
#include <limits.h>
#include <sys/xattr.h>

/* ------------------------------------------------------------------ names */
static const char *class_names[CL_MAX] = { "stdin", "stdout", "stderr", "out", "img", "in", "wr", "dir", "other", "*" };

enum {
	C_READ = 0, C_WRITE, C_PREAD, C_PWRITE, C_OPEN, C_OPENAT, C_CLOSE, C_DUP, C_LSEEK, C_FTRUNCATE,
	C_FSTAT, C_FSTATAT, C_FSYNC, C_UNLINK, C_MKDIR, C_SYMLINK, C_MKNOD, C_FCHOWNAT, C_FCHMODAT,
	C_UTIMENSAT, C_LSETXATTR, C_LGETXATTR, C_LLISTXATTR, C_READLINKAT, C_CHDIR, C_OPENDIR,
	C_FDOPENDIR, C_READDIR, C_PTHREAD_CREATE, C_PTHREAD_MUTEX_INIT, C_PTHREAD_COND_INIT, C_MMAP, C_MAX
};
static const char *call_names[C_MAX] = {
	"read", "write", "pread", "pwrite", "open", "openat", "close", "dup", "lseek", "ftruncate",
	"fstat", "fstatat", "fsync", "unlink", "mkdir", "symlink", "mknod", "fchownat", "fchmodat",
	"utimensat", "lsetxattr", "lgetxattr", "llistxattr", "readlinkat", "chdir", "opendir",
	"fdopendir", "readdir", "pthread_create", "pthread_mutex_init", "pthread_cond_init", "mmap"
};

enum { FK_SHORT = 1, FK_SHORT1, FK_EINTR, FK_ERR, FK_EOF };

typedef struct { int call, cls; long ord; int kind; long arg; } fault_t;
typedef struct { int call, cls, kind, permille; } rate_t;
typedef struct { int cls; off_t off; int mode; unsigned char byte; long once; long deliveries; } corrupt_t;
typedef struct { int cls; char path[PATH_MAX]; } watch_t;

#define MAXF 64
static fault_t faults[MAXF]; static int nfaults;
static rate_t rates[MAXF]; static int nrates;
static corrupt_t corrupts[MAXF]; static int ncorrupts;
static watch_t watches[16]; static int nwatches;
static long counters[C_MAX][CL_MAX];
static long fired[C_MAX][6];
static long fired_total;
static unsigned char fdclass[1024];
static unsigned char eintr_run[1024];
static long chunk[CL_MAX];           /* -1 = off, 0 = random, n = cap */
static off_t truncsize[CL_MAX];      /* -1 = off */
static int journal_cls = -1; static int journal_fd = -1; static long journal_ops;
static int kill_cls = -1; static long kill_at;
static int monitor_outmain = 1;
static char jail_root[PATH_MAX]; static int jail_on;
static long corrupt_delivered;
static long long xfer_bytes[CL_MAX];

static int call_id(const char *s)
{
	for (int i = 0; i < C_MAX; i++)
		if (!strcmp(s, call_names[i]))
			return i;
	return -1;
}

static int class_id(const char *s)
{
	for (int i = 0; i < CL_MAX; i++)
		if (!strcmp(s, class_names[i]))
			return i;
	return -1;
}

int sim_fd_class(int fd)
{
	if (fd < 0 || fd >= 1024)
		return CL_OTHER;
	return fdclass[fd];
}

static void set_class(int fd, int cls)
{
	if (fd >= 0 && fd < 1024) {
		fdclass[fd] = cls;
		eintr_run[fd] = 0;
	}
}

/* ------------------------------------------------------------------ plan */
static char fakedev_name[128];
static unsigned long fakedev_dev;
static long fakedev_hits;

int sim_io_plan(int argc, char **argv)
{
	if (!strcmp(argv[0], "watch") && argc >= 3) {
		int c = class_id(argv[1]);
		if (c < 0 || nwatches == 16) return 1;
		watches[nwatches].cls = c;
		snprintf(watches[nwatches].path, PATH_MAX, "%s", argv[2]);
		nwatches++;
		return 0;
	}
	if (!strcmp(argv[0], "fault") && argc >= 5) {
		fault_t f;
		f.call = call_id(argv[1]);
		f.cls = class_id(argv[2]);
		f.ord = atol(argv[3]);
		f.arg = argc >= 6 ? atol(argv[5]) : 0;
		if (!strcmp(argv[4], "short")) f.kind = FK_SHORT;
		else if (!strcmp(argv[4], "short1")) f.kind = FK_SHORT1;
		else if (!strcmp(argv[4], "eintr")) f.kind = FK_EINTR;
		else if (!strcmp(argv[4], "err")) f.kind = FK_ERR;
		else if (!strcmp(argv[4], "eof")) f.kind = FK_EOF;
		else return 1;
		if (f.call < 0 || f.cls < 0 || nfaults == MAXF) return 1;
		if (f.kind == FK_ERR && f.arg == 0) f.arg = EIO;
		faults[nfaults++] = f;
		return 0;
	}
	if (!strcmp(argv[0], "rate") && argc >= 5) {
		rate_t r;
		r.call = call_id(argv[1]);
		r.cls = class_id(argv[2]);
		if (!strcmp(argv[3], "short")) r.kind = FK_SHORT;
		else if (!strcmp(argv[3], "short1")) r.kind = FK_SHORT1;
		else if (!strcmp(argv[3], "eintr")) r.kind = FK_EINTR;
		else return 1;
		r.permille = atoi(argv[4]);
		if (r.call < 0 || r.cls < 0 || nrates == MAXF) return 1;
		rates[nrates++] = r;
		return 0;
	}
	if (!strcmp(argv[0], "chunk") && argc >= 3) {
		int c = class_id(argv[1]);
		if (c < 0) return 1;
		chunk[c] = atol(argv[2]);
		return 0;
	}
	if (!strcmp(argv[0], "truncsize") && argc >= 3) {
		int c = class_id(argv[1]);
		if (c < 0) return 1;
		truncsize[c] = atoll(argv[2]);
		return 0;
	}
	if (!strcmp(argv[0], "corrupt") && argc >= 5) {
		corrupt_t c;
		memset(&c, 0, sizeof(c));
		c.cls = class_id(argv[1]);
		c.off = strtoll(argv[2], NULL, 0);
		c.mode = !strcmp(argv[3], "xor");
		c.byte = strtoul(argv[4], NULL, 0);
		if (argc >= 7 && !strcmp(argv[5], "once"))
			c.once = atol(argv[6]);
		if (c.cls < 0 || ncorrupts == MAXF) return 1;
		corrupts[ncorrupts++] = c;
		return 0;
	}
	if (!strcmp(argv[0], "journal") && argc >= 3) {
		journal_cls = class_id(argv[1]);
		journal_fd = __real_open(argv[2], O_WRONLY | O_CREAT | O_TRUNC | O_APPEND, 0644);
		if (journal_fd >= 0 && journal_fd < 1024) {
			/* keep it away from low fd numbers the tools may print or reuse */
			int hi = fcntl(journal_fd, F_DUPFD, 900);
			if (hi >= 0) { __real_close(journal_fd); journal_fd = hi; }
		}
		return journal_cls < 0 || journal_fd < 0;
	}
	if (!strcmp(argv[0], "killat") && argc >= 3) {
		kill_cls = class_id(argv[1]);
		kill_at = atol(argv[2]);
		return kill_cls < 0;
	}
	if (!strcmp(argv[0], "jail") && argc >= 2) {
		snprintf(jail_root, PATH_MAX, "%s", argv[1]);
		jail_on = 1;
		return 0;
	}
	if (!strcmp(argv[0], "monitor_outmain") && argc >= 2) { monitor_outmain = atoi(argv[1]); return 0; }
	if (!strcmp(argv[0], "fakedev") && argc >= 3) { snprintf(fakedev_name, sizeof(fakedev_name), "%s", argv[1]); fakedev_dev = strtoul(argv[2], NULL, 0); return 0; }
	return 1;
}

static void fakedev_reset(void);
static long fakedev_count(void);

void sim_io_reset(void)
{
	fakedev_reset();
	nfaults = nrates = ncorrupts = nwatches = 0;
	memset(counters, 0, sizeof(counters));
	memset(fired, 0, sizeof(fired));
	fired_total = 0;
	for (int i = 0; i < CL_MAX; i++) { chunk[i] = -1; truncsize[i] = -1; }
	journal_cls = kill_cls = -1;
	if (journal_fd >= 0) __real_close(journal_fd);
	journal_fd = -1;
	journal_ops = 0;
	jail_on = 0;
	corrupt_delivered = 0;
	memset(xfer_bytes, 0, sizeof(xfer_bytes));
	memset(fdclass, CL_OTHER, sizeof(fdclass));
	fdclass[0] = CL_STDIN; fdclass[1] = CL_STDOUT; fdclass[2] = CL_STDERR;
}

__attribute__((constructor(100))) static void io_ctor(void) { sim_io_reset(); }

void sim_io_start(void) {}

void sim_io_report(void)
{
	static const char *kn[] = { "", "short", "short1", "eintr", "err", "eof" };
	for (int c = 0; c < C_MAX; c++) {
		for (int k = 0; k < CL_MAX; k++)
			if (counters[c][k] && k != CL_ANY)
				sim_trace("N %s %s %ld", call_names[c], class_names[k], counters[c][k]);
		for (int k = 1; k < 6; k++)
			if (fired[c][k])
				sim_trace("FC %s %s %ld", call_names[c], kn[k], fired[c][k]);
	}
	if (ncorrupts)
		sim_trace("FC corrupt delivered %ld", corrupt_delivered);
	if (fakedev_count())
		sim_trace("FC fakedev applied %ld", fakedev_count());
	if (journal_cls >= 0)
		sim_trace("J ops %ld", journal_ops);
}

/* ------------------------------------------------------------------ fault lookup */
typedef struct { int kind; long arg; long ord; int from_rate; } hit_t;

static int fault_check(int call, int cls, hit_t *hit)
{
	static const char *kn[] = { "", "short", "short1", "eintr", "err", "eof" };
	long oc = ++counters[call][cls];
	long oa = ++counters[call][CL_ANY];
	hit->from_rate = 0;
	for (int i = 0; i < nfaults; i++) {
		fault_t *f = &faults[i];
		if (f->call != call)
			continue;
		if ((f->cls == cls && f->ord == oc) || (f->cls == CL_ANY && f->ord == oa)) {
			hit->kind = f->kind;
			hit->arg = f->arg;
			hit->ord = f->cls == CL_ANY ? oa : oc;
			sim_trace("F %s %s %ld %s %ld", call_names[call], class_names[f->cls], hit->ord,
				  kn[f->kind], f->arg);
			return 1;
		}
	}
	for (int i = 0; i < nrates; i++) {
		rate_t *r = &rates[i];
		if (r->call != call || (r->cls != cls && r->cls != CL_ANY))
			continue;
		if ((int)sim_rng_below(&sim_rng, 1000) < r->permille) {
			hit->kind = r->kind;
			hit->arg = 0;
			hit->ord = oc;
			hit->from_rate = 1;
			return 1;
		}
	}
	return 0;
}

static void count_fired(int call, int kind)
{
	fired[call][kind]++;
	fired_total++;
}

/* generic "may this call fail now": returns errno to fail with, or 0 */
static int simple_fault(int call, int cls)
{
	hit_t h;
	if (!sim_active)
		return 0;
	if (!fault_check(call, cls, &h))
		return 0;
	if (h.kind == FK_ERR) {
		count_fired(call, FK_ERR);
		return (int)h.arg;
	}
	if (h.kind == FK_EINTR) {
		count_fired(call, FK_EINTR);
		return EINTR;
	}
	return 0;
}

int sim_fault_simple(const char *name)
{
	int c = call_id(name);
	if (c < 0)
		return 0;
	return simple_fault(c, CL_OTHER);
}

/* short count for a transfer of n bytes; 0 = leave alone */
static size_t short_count(int kind, long arg, size_t n)
{
	if (n <= 1)
		return 0;
	if (kind == FK_SHORT1)
		return 1;
	if (arg > 0)
		return (size_t)arg < n ? (size_t)arg : 0;
	switch (sim_rng_below(&sim_rng, 4)) {
	case 0: return 1;
	case 1: return n - 1;
	case 2: return n / 2;
	default: return 1 + sim_rng_below(&sim_rng, n - 1);
	}
}

/* returns: -2 = proceed with *count (possibly shortened); otherwise the value to return (errno set) */
static ssize_t xfer_fault(int call, int fd, size_t *count, int is_read)
{
	hit_t h;
	int cls = sim_fd_class(fd);

	if (is_read && chunk[cls] >= 0 && *count > 1) {
		size_t cap = chunk[cls] > 0 ? (size_t)chunk[cls] : 1 + sim_rng_below(&sim_rng, *count);
		if (cap < *count) {
			*count = cap;
			fired[call][FK_SHORT]++;
		}
	}
	if (!fault_check(call, cls, &h))
		goto proceed;
	switch (h.kind) {
	case FK_EINTR:
		if (fd >= 0 && fd < 1024) {
			if (eintr_run[fd] >= 3)
				goto proceed;
			eintr_run[fd]++;
		}
		count_fired(call, FK_EINTR);
		if (h.from_rate)
			sim_trace("R %s %s %ld eintr 0", call_names[call], class_names[cls], h.ord);
		errno = EINTR;
		return -1;
	case FK_ERR:
		count_fired(call, FK_ERR);
		errno = (int)h.arg;
		return -1;
	case FK_EOF:
		if (!is_read)
			goto proceed;
		count_fired(call, FK_EOF);
		sim_trace("E eof %s %s after %lld bytes", call_names[call], class_names[cls], xfer_bytes[cls]);
		return 0;
	case FK_SHORT:
	case FK_SHORT1: {
		size_t n = short_count(h.kind, h.arg, *count);
		if (n > 0) {
			*count = n;
			count_fired(call, h.kind);
			if (h.from_rate)
				sim_trace("R %s %s %ld short %zu", call_names[call], class_names[cls], h.ord, n);
		}
		break;
	}
	}
proceed:
	if (fd >= 0 && fd < 1024)
		eintr_run[fd] = 0;
	return -2;
}

/* ------------------------------------------------------------------ stored bytes */
static void apply_corruption(int cls, off_t off, unsigned char *buf, ssize_t n)
{
	for (int i = 0; i < ncorrupts; i++) {
		corrupt_t *c = &corrupts[i];
		if (c->cls != cls || c->off < off || c->off >= off + n)
			continue;
		c->deliveries++;
		if (c->once && c->deliveries != c->once)
			continue;
		unsigned char *p = buf + (c->off - off);
		unsigned char old = *p;
		*p = c->mode ? (old ^ c->byte) : c->byte;
		if (*p != old)
			corrupt_delivered++;
	}
}

/* ------------------------------------------------------------------ journal */
static void journal_rec(char op, off_t off, const void *data, size_t len)
{
	struct { char op; char pad[7]; int64_t off; int64_t len; } hdr;
	memset(&hdr, 0, sizeof(hdr));
	hdr.op = op;
	hdr.off = off;
	hdr.len = len;
	__real_write(journal_fd, &hdr, sizeof(hdr));
	size_t done = 0;
	while (done < len) {
		ssize_t r = __real_write(journal_fd, (const char *)data + done, len - done);
		if (r <= 0)
			break;
		done += r;
	}
}

/* called before a mutation of a watched object is applied */
static void mutation_point(int cls)
{
	if (cls == CL_OUT && monitor_outmain && sim_self() != 0) {
		sim_violation("monitor output-io-off-main-thread t%d", sim_self());
		sim_die(SIM_EXIT_MONITOR);
	}
	if (cls == journal_cls || cls == kill_cls) {
		journal_ops++;
		if (cls == kill_cls && journal_ops == kill_at) {
			sim_trace("K killed before mutation %ld", journal_ops);
			raise(SIGKILL);
		}
	}
}

/* ------------------------------------------------------------------ confinement monitor */
/* Resolve where a path-taking call will act, exactly as the kernel will: all components but the
 * last are followed; the last one is followed iff `follow`. The parent directory is resolved with
 * realpath (so symlinked parents show their real location), the last component is appended. */
static void jail_check_depth(const char *call, int dirfd, const char *path, int follow, int depth)
{
	char full[PATH_MAX * 2], parent[PATH_MAX], resolved[PATH_MAX], final[PATH_MAX * 2];
	ssize_t n;
	if (!jail_on || !path)
		return;
	if (path[0] == '/') {
		snprintf(full, sizeof(full), "%s", path);
	} else if (dirfd == AT_FDCWD) {
		if (!getcwd(parent, sizeof(parent)))
			return;
		snprintf(full, sizeof(full), "%s/%s", parent, path);
	} else {
		char link[64];
		snprintf(link, sizeof(link), "/proc/self/fd/%d", dirfd);
		n = readlink(link, parent, sizeof(parent) - 1);
		if (n < 0)
			return;
		parent[n] = 0;
		snprintf(full, sizeof(full), "%s/%s", parent, path);
	}
	/* strip trailing slashes */
	size_t l = strlen(full);
	while (l > 1 && full[l - 1] == '/')
		full[--l] = 0;
	if (follow && realpath(full, resolved)) {
		snprintf(final, sizeof(final), "%s", resolved);
	} else if (follow && depth < 8 && (n = readlink(full, parent, sizeof(parent) - 1)) > 0) {
		/* dangling symlink as last component of a call that follows it: the kernel acts on the link's target */
		char *slash = strrchr(full, '/');
		parent[n] = 0;
		if (parent[0] == '/') {
			jail_check_depth(call, AT_FDCWD, parent, follow, depth + 1);
		} else {
			char again[PATH_MAX * 3];
			*slash = 0;
			snprintf(again, sizeof(again), "%s/%s", full, parent);
			jail_check_depth(call, AT_FDCWD, again, follow, depth + 1);
		}
		return;
	} else {
		char *slash = strrchr(full, '/');
		const char *last = slash + 1;
		char save;
		if (slash == full) {
			snprintf(parent, sizeof(parent), "/");
		} else {
			save = *slash;
			*slash = 0;
			snprintf(parent, sizeof(parent), "%s", full);
			*slash = save;
		}
		if (!realpath(parent, resolved))
			return; /* the call will fail with ENOENT/ENOTDIR: nothing is touched */
		if (!strcmp(last, "..") || !strcmp(last, ".")) {
			snprintf(final, sizeof(final), "%s/%s", resolved, last);
			char tmp[PATH_MAX];
			if (realpath(final, tmp))
				snprintf(final, sizeof(final), "%s", tmp);
		} else {
			snprintf(final, sizeof(final), "%s/%s", strcmp(resolved, "/") ? resolved : "", last);
		}
	}
	size_t rl = strlen(jail_root);
	size_t fl = strlen(final);
	/* creating the unpack root itself walks its ancestors with mkdir (EEXIST is ignored): no effect outside R */
	if (!strcmp(call, "mkdir") && fl < rl && !strncmp(jail_root, final, fl) && (jail_root[fl] == '/' || fl == 1))
		return;
	if (strncmp(final, jail_root, rl) != 0 || (final[rl] != 0 && final[rl] != '/')) {
		sim_violation("confinement %s acts-on %s outside %s (path %s)", call, final, jail_root, path);
	}
}

static void jail_check(const char *call, int dirfd, const char *path, int follow)
{
	jail_check_depth(call, dirfd, path, follow, 0);
}

/* ------------------------------------------------------------------ wrappers */
static int classify_open(const char *path, int flags)
{
	for (int i = 0; i < nwatches; i++)
		if (!strcmp(watches[i].path, path))
			return watches[i].cls;
	if (flags & O_DIRECTORY)
		return CL_DIR;
	if ((flags & O_ACCMODE) != O_RDONLY)
		return CL_WR;
	return CL_IN;
}

ssize_t __wrap_read(int fd, void *buf, size_t count)
{
	if (!sim_active)
		return __real_read(fd, buf, count);
	ssize_t r = xfer_fault(C_READ, fd, &count, 1);
	if (r != -2)
		return r;
	int cls = sim_fd_class(fd);
	off_t pos = -1;
	if (ncorrupts || truncsize[cls] >= 0)
		pos = __real_lseek(fd, 0, SEEK_CUR);
	if (truncsize[cls] >= 0 && pos >= 0) {
		if (pos >= truncsize[cls])
			return 0;
		if ((off_t)count > truncsize[cls] - pos)
			count = truncsize[cls] - pos;
	}
	r = __real_read(fd, buf, count);
	if (r > 0)
		xfer_bytes[cls] += r;
	if (r > 0 && ncorrupts && pos >= 0)
		apply_corruption(cls, pos, buf, r);
	return r;
}

ssize_t __wrap_pread(int fd, void *buf, size_t count, off_t off)
{
	if (!sim_active)
		return __real_pread(fd, buf, count, off);
	ssize_t r = xfer_fault(C_PREAD, fd, &count, 1);
	if (r != -2)
		return r;
	int cls = sim_fd_class(fd);
	if (truncsize[cls] >= 0) {
		if (off >= truncsize[cls])
			return 0;
		if ((off_t)count > truncsize[cls] - off)
			count = truncsize[cls] - off;
	}
	r = __real_pread(fd, buf, count, off);
	if (r > 0 && ncorrupts)
		apply_corruption(cls, off, buf, r);
	return r;
}

ssize_t __wrap_write(int fd, const void *buf, size_t count)
{
	if (!sim_active)
		return __real_write(fd, buf, count);
	ssize_t r = xfer_fault(C_WRITE, fd, &count, 0);
	if (r != -2)
		return r;
	int cls = sim_fd_class(fd);
	if (cls == CL_OUT || cls == journal_cls || cls == kill_cls) {
		mutation_point(cls);
		off_t pos = __real_lseek(fd, 0, SEEK_CUR);
		r = __real_write(fd, buf, count);
		if (r > 0 && cls == journal_cls && journal_fd >= 0)
			journal_rec('W', pos, buf, r);
		return r;
	}
	return __real_write(fd, buf, count);
}

ssize_t __wrap_pwrite(int fd, const void *buf, size_t count, off_t off)
{
	if (!sim_active)
		return __real_pwrite(fd, buf, count, off);
	ssize_t r = xfer_fault(C_PWRITE, fd, &count, 0);
	if (r != -2)
		return r;
	int cls = sim_fd_class(fd);
	if (cls == CL_OUT || cls == journal_cls || cls == kill_cls)
		mutation_point(cls);
	r = __real_pwrite(fd, buf, count, off);
	if (r > 0 && cls == journal_cls && journal_fd >= 0)
		journal_rec('W', off, buf, r);
	return r;
}

int __wrap_open(const char *path, int flags, ...)
{
	mode_t mode = 0;
	if (flags & (O_CREAT | O_TMPFILE)) {
		va_list ap;
		va_start(ap, flags);
		mode = va_arg(ap, mode_t);
		va_end(ap);
	}
	if (!sim_active)
		return __real_open(path, flags, mode);
	int cls = classify_open(path, flags);
	int e = simple_fault(C_OPEN, cls);
	if (e) { errno = e; return -1; }
	if ((flags & O_ACCMODE) != O_RDONLY || (flags & O_CREAT))
		jail_check("open", AT_FDCWD, path, !(flags & O_NOFOLLOW) && !((flags & O_CREAT) && (flags & O_EXCL)));
	if ((cls == journal_cls || cls == kill_cls) && (flags & (O_CREAT | O_TRUNC)))
		mutation_point(cls);
	/* an existing file opened without O_TRUNC keeps its content: 'O' instead of 'C' in the journal */
	int existed = 0;
	if (cls == journal_cls && !(flags & O_TRUNC)) {
		struct stat sb;
		existed = __real_fstatat(AT_FDCWD, path, &sb, 0) == 0 && sb.st_size > 0;
	}
	int fd = __real_open(path, flags, mode);
	if (fd >= 0) {
		set_class(fd, cls);
		if (cls == journal_cls && journal_fd >= 0 && (flags & (O_CREAT | O_TRUNC)))
			journal_rec(existed ? 'O' : 'C', 0, NULL, 0);
	}
	return fd;
}

int __wrap_openat(int dirfd, const char *path, int flags, ...)
{
	mode_t mode = 0;
	if (flags & (O_CREAT | O_TMPFILE)) {
		va_list ap;
		va_start(ap, flags);
		mode = va_arg(ap, mode_t);
		va_end(ap);
	}
	if (!sim_active)
		return __real_openat(dirfd, path, flags, mode);
	int cls = classify_open(path, flags);
	int e = simple_fault(C_OPENAT, cls);
	if (e) { errno = e; return -1; }
	if ((flags & O_ACCMODE) != O_RDONLY || (flags & O_CREAT))
		jail_check("openat", dirfd, path, !(flags & O_NOFOLLOW) && !((flags & O_CREAT) && (flags & O_EXCL)));
	int fd = __real_openat(dirfd, path, flags, mode);
	if (fd >= 0)
		set_class(fd, cls);
	return fd;
}

int __wrap_close(int fd)
{
	if (!sim_active)
		return __real_close(fd);
	int cls = sim_fd_class(fd);
	int e = simple_fault(C_CLOSE, cls);
	if (e == EINTR) {
		/* Linux closes the descriptor even when close reports EINTR; retrying would hit EBADF
		   (or somebody else's fd). Model: not closed yet, caller may retry. */
		if (fd >= 0 && fd < 1024 && eintr_run[fd] < 3) {
			eintr_run[fd]++;
			errno = EINTR;
			return -1;
		}
	} else if (e) {
		/* the descriptor is released, the error is reported */
		__real_close(fd);
		set_class(fd, CL_OTHER);
		errno = e;
		return -1;
	}
	int r = __real_close(fd);
	set_class(fd, CL_OTHER);
	return r;
}

int __wrap_dup(int fd)
{
	if (!sim_active)
		return __real_dup(fd);
	int cls = sim_fd_class(fd);
	int e = simple_fault(C_DUP, cls);
	if (e) { errno = e; return -1; }
	int n = __real_dup(fd);
	if (n >= 0)
		set_class(n, cls);
	return n;
}

off_t __wrap_lseek(int fd, off_t off, int whence)
{
	if (!sim_active)
		return __real_lseek(fd, off, whence);
	int e = simple_fault(C_LSEEK, sim_fd_class(fd));
	if (e) { errno = e; return (off_t)-1; }
	return __real_lseek(fd, off, whence);
}

int __wrap_ftruncate(int fd, off_t len)
{
	if (!sim_active)
		return __real_ftruncate(fd, len);
	int cls = sim_fd_class(fd);
	int e = simple_fault(C_FTRUNCATE, cls);
	if (e) { errno = e; return -1; }
	if (cls == CL_OUT || cls == journal_cls || cls == kill_cls)
		mutation_point(cls);
	int r = __real_ftruncate(fd, len);
	if (r == 0 && cls == journal_cls && journal_fd >= 0)
		journal_rec('T', len, NULL, 0);
	return r;
}

/* ---- simulated mount point: every object whose path has a component named <fakedev_name> reports device <fakedev_dev>
 *      (plan: fakedev <name> <dev>); the kernel's answer is used for everything else ---- */
static void fakedev_reset(void) { fakedev_name[0] = 0; fakedev_dev = 0; fakedev_hits = 0; }
static long fakedev_count(void) { return fakedev_hits; }

static int path_has_component(const char *p, const char *name)
{
	size_t n = strlen(name);
	while (*p) {
		while (*p == '/') p++;
		const char *e = p;
		while (*e && *e != '/') e++;
		if ((size_t)(e - p) == n && !memcmp(p, name, n))
			return 1;
		p = e;
	}
	return 0;
}

static void fakedev_apply(int dirfd, const char *path, struct stat *sb)
{
	char base[PATH_MAX], link[64];
	if (!fakedev_name[0])
		return;
	base[0] = 0;
	if (dirfd >= 0) {
		snprintf(link, sizeof(link), "/proc/self/fd/%d", dirfd);
		ssize_t n = readlink(link, base, sizeof(base) - 1);
		base[n > 0 ? n : 0] = 0;
	} else if (dirfd == AT_FDCWD && path && path[0] != '/') {
		if (!getcwd(base, sizeof(base)))
			base[0] = 0;
	}
	if (path_has_component(base, fakedev_name) || (path && strcmp(path, "..") && strcmp(path, ".") && path_has_component(path, fakedev_name))) {
		sb->st_dev = fakedev_dev;
		fakedev_hits++;
	}
}

int __wrap_fstat(int fd, struct stat *sb)
{
	if (!sim_active)
		return __real_fstat(fd, sb);
	int cls = sim_fd_class(fd);
	int e = simple_fault(C_FSTAT, cls);
	if (e) { errno = e; return -1; }
	int r = __real_fstat(fd, sb);
	if (r == 0 && truncsize[cls] >= 0 && sb->st_size > truncsize[cls])
		sb->st_size = truncsize[cls];
	if (r == 0)
		fakedev_apply(fd, NULL, sb);
	return r;
}

int __wrap_fstatat(int dirfd, const char *path, struct stat *sb, int flags)
{
	if (!sim_active)
		return __real_fstatat(dirfd, path, sb, flags);
	int e = simple_fault(C_FSTATAT, CL_OTHER);
	if (e) { errno = e; return -1; }
	int r = __real_fstatat(dirfd, path, sb, flags);
	if (r == 0)
		fakedev_apply(dirfd, path, sb);
	return r;
}

int __wrap_fsync(int fd)
{
	if (!sim_active)
		return __real_fsync(fd);
	int e = simple_fault(C_FSYNC, sim_fd_class(fd));
	if (e) { errno = e; return -1; }
	return __real_fsync(fd);
}

int __wrap_unlink(const char *path)
{
	if (!sim_active)
		return __real_unlink(path);
	int cls = classify_open(path, O_RDWR);
	int e = simple_fault(C_UNLINK, cls);
	if (e) { errno = e; return -1; }
	jail_check("unlink", AT_FDCWD, path, 0);
	if (cls == journal_cls || cls == kill_cls)
		mutation_point(cls);
	int r = __real_unlink(path);
	if (r == 0 && cls == journal_cls && journal_fd >= 0)
		journal_rec('U', 0, NULL, 0);
	return r;
}

int __wrap_mkdir(const char *path, mode_t mode)
{
	if (!sim_active)
		return __real_mkdir(path, mode);
	int e = simple_fault(C_MKDIR, CL_OTHER);
	if (e) { errno = e; return -1; }
	jail_check("mkdir", AT_FDCWD, path, 0);
	return __real_mkdir(path, mode);
}

int __wrap_symlink(const char *target, const char *path)
{
	if (!sim_active)
		return __real_symlink(target, path);
	int e = simple_fault(C_SYMLINK, CL_OTHER);
	if (e) { errno = e; return -1; }
	jail_check("symlink", AT_FDCWD, path, 0);
	return __real_symlink(target, path);
}

int __wrap_mknod(const char *path, mode_t mode, dev_t dev)
{
	if (!sim_active)
		return __real_mknod(path, mode, dev);
	int e = simple_fault(C_MKNOD, CL_OTHER);
	if (e) { errno = e; return -1; }
	jail_check("mknod", AT_FDCWD, path, 0);
	return __real_mknod(path, mode, dev);
}

int __wrap_fchownat(int dirfd, const char *path, uid_t u, gid_t g, int flags)
{
	if (!sim_active)
		return __real_fchownat(dirfd, path, u, g, flags);
	int e = simple_fault(C_FCHOWNAT, CL_OTHER);
	if (e) { errno = e; return -1; }
	jail_check("fchownat", dirfd, path, !(flags & AT_SYMLINK_NOFOLLOW));
	return __real_fchownat(dirfd, path, u, g, flags);
}

int __wrap_fchmodat(int dirfd, const char *path, mode_t m, int flags)
{
	if (!sim_active)
		return __real_fchmodat(dirfd, path, m, flags);
	int e = simple_fault(C_FCHMODAT, CL_OTHER);
	if (e) { errno = e; return -1; }
	jail_check("fchmodat", dirfd, path, !(flags & AT_SYMLINK_NOFOLLOW));
	return __real_fchmodat(dirfd, path, m, flags);
}

int __wrap_utimensat(int dirfd, const char *path, const struct timespec *ts, int flags)
{
	if (!sim_active)
		return __real_utimensat(dirfd, path, ts, flags);
	int e = simple_fault(C_UTIMENSAT, CL_OTHER);
	if (e) { errno = e; return -1; }
	jail_check("utimensat", dirfd, path, !(flags & AT_SYMLINK_NOFOLLOW));
	return __real_utimensat(dirfd, path, ts, flags);
}

int __wrap_lsetxattr(const char *path, const char *name, const void *value, size_t size, int flags)
{
	if (!sim_active)
		return __real_lsetxattr(path, name, value, size, flags);
	int e = simple_fault(C_LSETXATTR, CL_OTHER);
	if (e) { errno = e; return -1; }
	jail_check("lsetxattr", AT_FDCWD, path, 0);
	return __real_lsetxattr(path, name, value, size, flags);
}

/* ---- path-taking calls the project does not use today: monitored only (jail), so that a change that starts using the link-following
 *      or "at" variants is still resolved and checked the way the kernel would resolve it ---- */
int __real_setxattr(const char *, const char *, const void *, size_t, int);
int __real_chmod(const char *, mode_t);
int __real_chown(const char *, uid_t, gid_t);
int __real_lchown(const char *, uid_t, gid_t);
int __real_truncate(const char *, off_t);
int __real_rename(const char *, const char *);
int __real_link(const char *, const char *);
int __real_unlinkat(int, const char *, int);
int __real_mkdirat(int, const char *, mode_t);
int __real_symlinkat(const char *, int, const char *);
int __real_rmdir(const char *);

int __wrap_setxattr(const char *path, const char *name, const void *value, size_t size, int flags)
{
	if (sim_active) jail_check("setxattr", AT_FDCWD, path, 1);
	return __real_setxattr(path, name, value, size, flags);
}
int __wrap_chmod(const char *path, mode_t mode)
{
	if (sim_active) jail_check("chmod", AT_FDCWD, path, 1);
	return __real_chmod(path, mode);
}
int __wrap_chown(const char *path, uid_t u, gid_t g)
{
	if (sim_active) jail_check("chown", AT_FDCWD, path, 1);
	return __real_chown(path, u, g);
}
int __wrap_lchown(const char *path, uid_t u, gid_t g)
{
	if (sim_active) jail_check("lchown", AT_FDCWD, path, 0);
	return __real_lchown(path, u, g);
}
int __wrap_truncate(const char *path, off_t len)
{
	if (sim_active) jail_check("truncate", AT_FDCWD, path, 1);
	return __real_truncate(path, len);
}
int __wrap_rename(const char *a, const char *b)
{
	if (sim_active) { jail_check("rename", AT_FDCWD, a, 0); jail_check("rename", AT_FDCWD, b, 0); }
	return __real_rename(a, b);
}
int __wrap_link(const char *a, const char *b)
{
	if (sim_active) jail_check("link", AT_FDCWD, b, 0);
	return __real_link(a, b);
}
int __wrap_unlinkat(int dirfd, const char *path, int flags)
{
	if (sim_active) jail_check("unlinkat", dirfd, path, 0);
	return __real_unlinkat(dirfd, path, flags);
}
int __wrap_mkdirat(int dirfd, const char *path, mode_t mode)
{
	if (sim_active) jail_check("mkdirat", dirfd, path, 0);
	return __real_mkdirat(dirfd, path, mode);
}
int __wrap_symlinkat(const char *target, int dirfd, const char *path)
{
	if (sim_active) jail_check("symlinkat", dirfd, path, 0);
	return __real_symlinkat(target, dirfd, path);
}
int __wrap_rmdir(const char *path)
{
	if (sim_active) jail_check("rmdir", AT_FDCWD, path, 0);
	return __real_rmdir(path);
}

ssize_t __wrap_lgetxattr(const char *path, const char *name, void *value, size_t size)
{
	if (!sim_active)
		return __real_lgetxattr(path, name, value, size);
	int e = simple_fault(C_LGETXATTR, CL_OTHER);
	if (e) { errno = e; return -1; }
	return __real_lgetxattr(path, name, value, size);
}

ssize_t __wrap_llistxattr(const char *path, char *list, size_t size)
{
	if (!sim_active)
		return __real_llistxattr(path, list, size);
	int e = simple_fault(C_LLISTXATTR, CL_OTHER);
	if (e) { errno = e; return -1; }
	return __real_llistxattr(path, list, size);
}

ssize_t __wrap_readlinkat(int dirfd, const char *path, char *buf, size_t size)
{
	if (!sim_active)
		return __real_readlinkat(dirfd, path, buf, size);
	int e = simple_fault(C_READLINKAT, CL_OTHER);
	if (e) { errno = e; return -1; }
	return __real_readlinkat(dirfd, path, buf, size);
}

int __wrap_chdir(const char *path)
{
	if (!sim_active)
		return __real_chdir(path);
	int e = simple_fault(C_CHDIR, CL_OTHER);
	if (e) { errno = e; return -1; }
	jail_check("chdir", AT_FDCWD, path, 1);
	return __real_chdir(path);
}

/* opendir / fdopendir / readdir / closedir live in misc.c (they also permute); they call this */
int sim_dir_fault(int which)
{
	static const int map[] = { C_OPENDIR, C_FDOPENDIR, C_READDIR };
	return simple_fault(map[which], CL_DIR);
}

void *__wrap_mmap(void *addr, size_t len, int prot, int flags, int fd, off_t off)
{
	if (!sim_active)
		return __real_mmap(addr, len, prot, flags, fd, off);
	int e = simple_fault(C_MMAP, CL_OTHER);
	if (e) { errno = e; return MAP_FAILED; }
	if (sim_alloc_should_fail("mmap", __builtin_return_address(0))) { errno = ENOMEM; return MAP_FAILED; }
	return __real_mmap(addr, len, prot, flags, fd, off);
}
