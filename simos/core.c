/* simos core: PRNG, plan, trace, process life cycle */
#define _GNU_SOURCE
#include "simos.h"
#include "simint.h"

#include <stdio.h>
#include <stdlib.h>
#include <string.h>
#include <unistd.h>
#include <fcntl.h>
#include <errno.h>
#include <signal.h>
#include <sys/mman.h>
#include <sys/resource.h>

int sim_active;
sim_rng_t sim_rng;

/* ------------------------------------------------------------------ PRNG */
uint64_t sim_splitmix(uint64_t *x)
{
	uint64_t z = (*x += 0x9e3779b97f4a7c15ULL);
	z = (z ^ (z >> 30)) * 0xbf58476d1ce4e5b9ULL;
	z = (z ^ (z >> 27)) * 0x94d049bb133111ebULL;
	return z ^ (z >> 31);
}

void sim_rng_seed(sim_rng_t *r, uint64_t seed)
{
	uint64_t x = seed;
	for (int i = 0; i < 4; i++)
		r->s[i] = sim_splitmix(&x);
}

static inline uint64_t rotl(uint64_t x, int k) { return (x << k) | (x >> (64 - k)); }

uint64_t sim_rng_next(sim_rng_t *r)
{
	uint64_t *s = r->s;
	uint64_t result = rotl(s[1] * 5, 7) * 9, t = s[1] << 17;
	s[2] ^= s[0]; s[3] ^= s[1]; s[1] ^= s[2]; s[0] ^= s[3];
	s[2] ^= t; s[3] = rotl(s[3], 45);
	return result;
}

uint64_t sim_rng_below(sim_rng_t *r, uint64_t n)
{
	/* bias is irrelevant here; determinism is what matters */
	return sim_rng_next(r) % n;
}

/* ------------------------------------------------------------------ trace */
#define TRACE_HDR 64
static char *trace_map;
static size_t trace_cap, trace_len;
static uint64_t run_hash = 0xcbf29ce484222325ULL;
static int violations;

static void trace_update_header(void)
{
	char hdr[TRACE_HDR + 1];
	if (!trace_map)
		return;
	snprintf(hdr, sizeof(hdr), "len=%010zu hash=%016llx viol=%04d", trace_len,
		 (unsigned long long)run_hash, violations);
	size_t n = strlen(hdr);
	memset(hdr + n, ' ', TRACE_HDR - n);
	hdr[TRACE_HDR - 1] = '\n';
	memcpy(trace_map, hdr, TRACE_HDR);
}

void sim_hash_mix(uint64_t v)
{
	for (int i = 0; i < 8; i++) {
		run_hash ^= (v >> (i * 8)) & 0xff;
		run_hash *= 0x100000001b3ULL;
	}
}

uint64_t sim_run_hash(void) { return run_hash; }

static void trace_vappend(const char *fmt, va_list ap)
{
	char buf[1024];
	int n = vsnprintf(buf, sizeof(buf) - 1, fmt, ap);
	if (n < 0)
		return;
	if (n > (int)sizeof(buf) - 2)
		n = sizeof(buf) - 2;
	buf[n++] = '\n';
	for (int i = 0; i < n; i++) {
		run_hash ^= (unsigned char)buf[i];
		run_hash *= 0x100000001b3ULL;
	}
	if (trace_map && TRACE_HDR + trace_len + n < trace_cap) {
		memcpy(trace_map + TRACE_HDR + trace_len, buf, n);
		trace_len += n;
	}
	trace_update_header();
}

void sim_trace(const char *fmt, ...)
{
	va_list ap;
	va_start(ap, fmt);
	trace_vappend(fmt, ap);
	va_end(ap);
}

void sim_violation(const char *fmt, ...)
{
	char buf[900];
	va_list ap;
	va_start(ap, fmt);
	vsnprintf(buf, sizeof(buf), fmt, ap);
	va_end(ap);
	violations++;
	sim_trace("V %s", buf);
}

static void trace_open(const char *path, size_t cap)
{
	int fd = __real_open(path, O_RDWR | O_CREAT | O_TRUNC, 0644);
	if (fd < 0)
		return;
	if (__real_ftruncate(fd, cap) != 0) {
		__real_close(fd);
		return;
	}
	void *p = __real_mmap(NULL, cap, PROT_READ | PROT_WRITE, MAP_SHARED, fd, 0);
	__real_close(fd);
	if (p == MAP_FAILED)
		return;
	trace_map = p;
	trace_cap = cap;
	trace_len = 0;
	trace_update_header();
}

void sim_die(int code)
{
	sim_finish_report();
	_exit(code);
}

/* ------------------------------------------------------------------ plan */
static int parse_line(char *line)
{
	char *argv[64];
	int argc = 0;
	char *save = NULL;
	char *hash = strchr(line, '#');
	if (hash)
		*hash = 0;
	for (char *t = strtok_r(line, " \t\r\n", &save); t && argc < 64; t = strtok_r(NULL, " \t\r\n", &save))
		argv[argc++] = t;
	if (argc == 0)
		return 0;
	if (!strcmp(argv[0], "seed") && argc >= 2) {
		sim_rng_seed(&sim_rng, strtoull(argv[1], NULL, 0));
		return 0;
	}
	if (!strcmp(argv[0], "tracesize"))
		return 0; /* handled before */
	if (sim_sched_plan(argc, argv) == 0)
		return 0;
	if (sim_io_plan(argc, argv) == 0)
		return 0;
	if (sim_alloc_plan(argc, argv) == 0)
		return 0;
	if (sim_misc_plan(argc, argv) == 0)
		return 0;
	fprintf(stderr, "simos: bad plan line starting with '%s'\n", argv[0]);
	return -1;
}

int sim_load_plan_text(const char *text)
{
	char *copy = strdup(text), *save = NULL;
	int rc = 0;
	if (!copy)
		return -1;
	sim_rng_seed(&sim_rng, 1);
	for (char *l = strtok_r(copy, "\n;", &save); l; l = strtok_r(NULL, "\n;", &save)) {
		if (parse_line(l) != 0) {
			rc = -1;
			break;
		}
	}
	free(copy);
	if (rc == 0) {
		sim_active = 1;
		sim_sched_plan_done();
	}
	return rc;
}

int sim_load_plan_file(const char *path)
{
	int fd = __real_open(path, O_RDONLY);
	if (fd < 0)
		return -1;
	size_t cap = 1 << 16, len = 0;
	char *buf = malloc(cap);
	for (;;) {
		if (len + 4096 > cap)
			buf = realloc(buf, cap *= 2);
		ssize_t r = __real_read(fd, buf + len, cap - len - 1);
		if (r < 0 && errno == EINTR)
			continue;
		if (r <= 0)
			break;
		len += r;
	}
	__real_close(fd);
	buf[len] = 0;
	int rc = sim_load_plan_text(buf);
	free(buf);
	return rc;
}

void sim_reset_all(void)
{
	sim_active = 0;
	run_hash = 0xcbf29ce484222325ULL;
	violations = 0;
	sim_sched_reset();
	sim_io_reset();
	sim_alloc_reset();
	sim_misc_reset();
}

/* ------------------------------------------------------------------ life cycle */
static int finished;

void sim_finish_report(void)
{
	if (finished)
		return;
	finished = 1;
	if (!sim_active)
		return;
	sim_sched_report();
	sim_io_report();
	sim_alloc_report();
	sim_misc_report();
	sim_trace("END hash=%016llx", (unsigned long long)run_hash);
}

static void on_exit_cb(void)
{
	sim_finish_report();
}

__attribute__((constructor(101))) static void sim_ctor(void)
{
	const char *plan = getenv("VERIF_PLAN");
	const char *trace = getenv("VERIF_TRACE");
	const char *cpu = getenv("VERIF_CPU_LIMIT");
	if (cpu) {
		struct rlimit rl;
		rl.rlim_cur = strtoul(cpu, NULL, 0);
		rl.rlim_max = rl.rlim_cur + 2; /* SIGXCPU first: tells a CPU hog apart from an external SIGKILL */
		setrlimit(RLIMIT_CPU, &rl);
	}
	if (!plan)
		return;
	if (trace) {
		const char *ts = getenv("VERIF_TRACESIZE");
		trace_open(trace, ts ? strtoul(ts, NULL, 0) : (1u << 20));
	}
	if (sim_load_plan_file(plan) != 0) {
		fprintf(stderr, "simos: cannot load plan %s\n", plan);
		_exit(SIM_EXIT_PLAN);
	}
	atexit(on_exit_cb);
	sim_io_start();
}
