/* Harness code (simos itself and the scenario drivers) is linked with the same --wrap options
 * as the project objects, so any plain reference to a wrapped libc symbol from harness code
 * would be intercepted and counted as if the project had made it. Include this header LAST:
 * it declares the __real_ entry points and redirects the plain names to them. */
#ifndef SIMREAL_H
#define SIMREAL_H

#include <sys/types.h>
#include <sys/stat.h>
#include <sys/mman.h>
#include <dirent.h>
#include <pthread.h>
#include <stdlib.h>
#include <string.h>
#include <unistd.h>
#include <fcntl.h>

#ifdef __cplusplus
extern "C" {
#endif

void *__real_malloc(size_t);
void *__real_calloc(size_t, size_t);
void *__real_realloc(void *, size_t);
char *__real_strdup(const char *);
char *__real_strndup(const char *, size_t);
void *__real_mmap(void *, size_t, int, int, int, off_t);

ssize_t __real_read(int, void *, size_t);
ssize_t __real_write(int, const void *, size_t);
ssize_t __real_pread(int, void *, size_t, off_t);
ssize_t __real_pwrite(int, const void *, size_t, off_t);
int __real_open(const char *, int, ...);
int __real_openat(int, const char *, int, ...);
int __real_close(int);
int __real_dup(int);
off_t __real_lseek(int, off_t, int);
int __real_ftruncate(int, off_t);
int __real_fstat(int, struct stat *);
int __real_fstatat(int, const char *, struct stat *, int);
int __real_fsync(int);
int __real_unlink(const char *);
int __real_mkdir(const char *, mode_t);
int __real_symlink(const char *, const char *);
int __real_mknod(const char *, mode_t, dev_t);
int __real_fchownat(int, const char *, uid_t, gid_t, int);
int __real_fchmodat(int, const char *, mode_t, int);
int __real_utimensat(int, const char *, const struct timespec *, int);
int __real_lsetxattr(const char *, const char *, const void *, size_t, int);
ssize_t __real_lgetxattr(const char *, const char *, void *, size_t);
ssize_t __real_llistxattr(const char *, char *, size_t);
ssize_t __real_readlinkat(int, const char *, char *, size_t);
int __real_chdir(const char *);
DIR *__real_opendir(const char *);
DIR *__real_fdopendir(int);
struct dirent *__real_readdir(DIR *);
int __real_closedir(DIR *);

int __real_pthread_create(pthread_t *, const pthread_attr_t *, void *(*)(void *), void *);
int __real_pthread_join(pthread_t, void **);
int __real_pthread_mutex_init(pthread_mutex_t *, const pthread_mutexattr_t *);
int __real_pthread_mutex_destroy(pthread_mutex_t *);
int __real_pthread_mutex_lock(pthread_mutex_t *);
int __real_pthread_mutex_unlock(pthread_mutex_t *);
int __real_pthread_cond_init(pthread_cond_t *, const pthread_condattr_t *);
int __real_pthread_cond_destroy(pthread_cond_t *);
int __real_pthread_cond_wait(pthread_cond_t *, pthread_mutex_t *);
int __real_pthread_cond_signal(pthread_cond_t *);
int __real_pthread_cond_broadcast(pthread_cond_t *);

#ifdef __cplusplus
}
#endif

#ifndef SIMREAL_NO_REDIRECT
#define malloc(n) __real_malloc(n)
#define calloc(a, b) __real_calloc(a, b)
#define realloc(p, n) __real_realloc(p, n)
#define strdup(s) __real_strdup(s)
#define strndup(s, n) __real_strndup(s, n)
#define read(a, b, c) __real_read(a, b, c)
#define write(a, b, c) __real_write(a, b, c)
#define pread(a, b, c, d) __real_pread(a, b, c, d)
#define pwrite(a, b, c, d) __real_pwrite(a, b, c, d)
#define close(a) __real_close(a)
#define lseek(a, b, c) __real_lseek(a, b, c)
#define ftruncate(a, b) __real_ftruncate(a, b)
#define fstat(a, b) __real_fstat(a, b)
#define unlink(a) __real_unlink(a)
#endif

#endif
