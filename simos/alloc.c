/* simos allocator seam: only references from project objects are wrapped (the codec libraries
 * keep the real allocator). Counts project allocations, fails the k-th, fills fresh memory with
 * a seed-dependent junk byte so uninitialised bytes that reach an output show up as a hash diff. */
#define SIMREAL_NO_REDIRECT
#include "simint.h"
#include <errno.h>
#include <malloc.h>

static long alloc_count;
static long alloc_fail_at;      /* k-th allocation returns NULL; 0 = never */
static long alloc_fail_from;    /* every allocation from the k-th on fails (sticky out-of-memory) */
static int junk_on;
static unsigned char junk_byte;
static long alloc_failed;

void sim_alloc_fail_set(long k) { alloc_fail_at = k; }   /* absolute ordinal; 0 disarms (for in-process scenario drivers) */

long sim_alloc_count(void) { return alloc_count; }

int sim_alloc_plan(int argc, char **argv)
{
	if (!strcmp(argv[0], "alloc_fail") && argc >= 2) { alloc_fail_at = atol(argv[1]); return 0; }
	if (!strcmp(argv[0], "alloc_fail_from") && argc >= 2) { alloc_fail_from = atol(argv[1]); return 0; }
	if (!strcmp(argv[0], "junk") && argc >= 2) { junk_on = 1; junk_byte = strtoul(argv[1], NULL, 0); return 0; }
	return 1;
}

void sim_alloc_reset(void)
{
	alloc_count = alloc_fail_at = alloc_fail_from = alloc_failed = 0;
	junk_on = 0;
}

void sim_alloc_report(void)
{
	sim_trace("N alloc * %ld", alloc_count);
	if (alloc_failed)
		sim_trace("FC alloc null %ld", alloc_failed);
}

int sim_alloc_should_fail2(const char *fn, void *caller, void *caller2)
{
	if (!sim_active)
		return 0;
	long k = ++alloc_count;
	if ((alloc_fail_at && k == alloc_fail_at) || (alloc_fail_from && k >= alloc_fail_from)) {
		alloc_failed++;
		if (alloc_failed <= 4)
			sim_trace("F alloc %s %ld caller=%p caller2=%p", fn, k, caller, caller2);
		errno = ENOMEM;
		return 1;
	}
	return 0;
}

int sim_alloc_should_fail(const char *fn, void *caller)
{
	return sim_alloc_should_fail2(fn, caller, NULL);
}

/* level-1 return address: valid because every object is built with -fno-omit-frame-pointer */
#define CALLER2 __builtin_extract_return_addr(__builtin_return_address(1))

void *__wrap_malloc(size_t n)
{
	if (sim_alloc_should_fail2("malloc", __builtin_return_address(0), CALLER2))
		return NULL;
	void *p = __real_malloc(n);
	if (p && junk_on && sim_active)
		memset(p, junk_byte, n);
	return p;
}

void *__wrap_calloc(size_t a, size_t b)
{
	if (sim_alloc_should_fail2("calloc", __builtin_return_address(0), CALLER2))
		return NULL;
	return __real_calloc(a, b);
}

void *__wrap_realloc(void *old, size_t n)
{
	if (sim_alloc_should_fail2("realloc", __builtin_return_address(0), CALLER2))
		return NULL;
	if (junk_on && sim_active) {
		size_t oldsz = old ? malloc_usable_size(old) : 0;
		void *p = __real_realloc(old, n);
		if (p && n > oldsz)
			memset((char *)p + oldsz, junk_byte, n - oldsz);
		return p;
	}
	return __real_realloc(old, n);
}

char *__wrap_strdup(const char *s)
{
	if (sim_alloc_should_fail2("strdup", __builtin_return_address(0), CALLER2))
		return NULL;
	return __real_strdup(s);
}

char *__wrap_strndup(const char *s, size_t n)
{
	if (sim_alloc_should_fail2("strndup", __builtin_return_address(0), CALLER2))
		return NULL;
	return __real_strndup(s, n);
}
